/* nanosim driver: zygote process that forks one child per simulated run.
 *
 *   nanosim compile <src.nano> <token> <out.nvm>      compile with the nano_virt image inside the simulator
 *   nanosim run <family> --seeds A:B [--tier quick|thorough] [--sub name] [--trace]
 *   nanosim replay <family> --plan <file> [--trace]
 *
 * One JSON line per run on stdout.
 */
#include "nanosim.h"
#include <stdlib.h>
#include <string.h>
#include <stdarg.h>
#include <errno.h>
#include <unistd.h>
#include <ucontext.h>
#include <dirent.h>
#include <fcntl.h>
#include <signal.h>
#include <sys/mman.h>
#include <sys/wait.h>
#include <sys/personality.h>
#include <sys/stat.h>
#include <sanitizer/common_interface_defs.h>
#include <sanitizer/asan_interface.h>

__attribute__((used)) const char *__asan_default_options(void) {
    return "detect_leaks=0:exitcode=77:detect_odr_violation=0:detect_stack_use_after_return=0:"
           "allocator_may_return_null=1:handle_sigfpe=1:handle_abort=1:max_allocation_size_mb=1024";
}

/* ---------------- corpus ---------------- */
Module *corpus; int ncorpus;
static char progs[64][32]; static int nprogs_;
int corpus_nprogs(void) { return nprogs_; }
const char *corpus_prog(int i) { return progs[i]; }
Module *corpus_find(const char *prog, int tok) {
    for (int i = 0; i < ncorpus; i++) if (corpus[i].tok == tok && strcmp(corpus[i].prog, prog) == 0) return &corpus[i];
    return NULL;
}
int corpus_ntoks(const char *prog) {
    int n = 0;
    for (int i = 0; i < ncorpus; i++) if (strcmp(corpus[i].prog, prog) == 0) n++;
    return n;
}
static int cmp_mod(const void *a, const void *b) {
    const Module *x = a, *y = b; int c = strcmp(x->prog, y->prog);
    return c ? c : x->tok - y->tok;
}
static uint8_t *slurp(const char *path, size_t *n) {
    FILE *f = __real_fopen(path, "rb"); if (!f) return NULL;
    fseek(f, 0, SEEK_END); long l = ftell(f); fseek(f, 0, SEEK_SET);
    uint8_t *d = malloc((size_t)l + 1); size_t r = fread(d, 1, (size_t)l, f); fclose(f); d[r] = 0; *n = r; return d;
}
static void corpus_load(void) {
    const char *dir = __real_getenv("NANOSIM_CORPUS"); if (!dir) dir = "/verif/build/corpus";
    DIR *d = opendir(dir); if (!d) return;
    struct dirent *e; int cap = 0;
    while ((e = readdir(d))) {
        char prog[64]; int tok; char ext[8];
        const char *dot = strchr(e->d_name, '.'); if (!dot) continue;
        size_t pl = (size_t)(dot - e->d_name); if (pl >= sizeof prog) continue;
        memcpy(prog, e->d_name, pl); prog[pl] = 0;
        if (sscanf(dot, ".%d.%7s", &tok, ext) != 2 || strcmp(ext, "nvm") != 0) continue;
        if (ncorpus == cap) { cap = cap ? cap * 2 : 64; corpus = realloc(corpus, sizeof(Module) * (size_t)cap); }
        Module *m = &corpus[ncorpus++]; memset(m, 0, sizeof *m);
        snprintf(m->prog, sizeof m->prog, "%s", prog); m->tok = tok;
        char p[512]; snprintf(p, sizeof p, "%s/%s", dir, e->d_name);
        m->d = slurp(p, &m->n);
        m->needs_extern = m->n > 12 && (m->d[8] & 2);
    }
    closedir(d);
    qsort(corpus, (size_t)ncorpus, sizeof(Module), cmp_mod);
    for (int i = 0; i < ncorpus; i++) if (!nprogs_ || strcmp(progs[nprogs_ - 1], corpus[i].prog)) snprintf(progs[nprogs_++], 32, "%s", corpus[i].prog);
}

/* ---------------- result helpers ---------------- */
void json_str(Buf *b, const char *s, size_t n) {
    buf_put(b, "\"", 1);
    for (size_t i = 0; i < n; i++) {
        unsigned char c = (unsigned char)s[i];
        if (c == '"' || c == '\\') { char t[2] = { '\\', (char)c }; buf_put(b, t, 2); }
        else if (c == '\n') buf_put(b, "\\n", 2);
        else if (c < 0x20 || c >= 0x7f) buf_printf(b, "\\u%04x", c);
        else buf_put(b, &c, 1);
    }
    buf_put(b, "\"", 1);
}
void res_violation(Result *r, const char *prop, const char *sigfmt, ...) {
    if (strcmp(r->verdict, "violation") == 0) return;   /* first clause wins */
    strcpy(r->verdict, "violation");
    snprintf(r->property, sizeof r->property, "%s", prop);
    va_list ap; va_start(ap, sigfmt); vsnprintf(r->sig, sizeof r->sig, sigfmt, ap); va_end(ap);
}
void probe(Result *r, const char *name, uint64_t v) {
    if (!v) return;
    buf_printf(&r->probes, "%s\"%s\":%llu", r->probes.len ? "," : "", name, (unsigned long long)v);
}
static void result_emit(Result *r, Buf *o) {
    buf_printf(o, "{\"family\":\"%s\",\"seed\":%llu,\"verdict\":\"%s\",\"property\":\"%s\",\"sig\":", r->family,
               (unsigned long long)r->seed, r->verdict, r->property);
    json_str(o, r->sig, strlen(r->sig));
    buf_printf(o, ",\"detail\":"); json_str(o, (char *)r->detail.d, r->detail.len);
    buf_printf(o, ",\"plan\":"); json_str(o, (char *)r->plan.d, r->plan.len);
    buf_printf(o, ",\"class\":"); json_str(o, r->class_key, strlen(r->class_key));
    buf_printf(o, ",\"nontrivial\":%d,\"hash\":\"%016llx\",\"sched\":\"%016llx\",\"simtime_us\":%llu", r->nontrivial,
               (unsigned long long)sim_event_hash(), (unsigned long long)sim_sched_hash(), (unsigned long long)sim_now_us());
    buf_printf(o, ",\"stats\":{\"steps\":%llu,\"switches\":%llu,\"preempts\":%llu,\"blocks\":%llu,\"vm_instrs\":%llu,"
               "\"short_reads\":%llu,\"short_writes\":%llu,\"eintrs\":%llu,\"blocked_writes\":%llu,\"blocked_reads\":%llu,"
               "\"sigpipe_kills\":%llu,\"epipes\":%llu,\"econnresets\":%llu,\"eofs\":%llu,\"conn_refused\":%llu,\"backlog_waits\":%llu,"
               "\"forks\":%llu,\"execs\":%llu,\"exec_fails\":%llu,\"waitpid_nohang_zero\":%llu,\"kills\":%llu,\"zombie_delays\":%llu,"
               "\"poll_timeouts\":%llu,\"sleeps\":%llu,\"mutex_contended\":%llu,\"threads\":%llu,\"flock_contended\":%llu,\"img_swaps\":%llu,\"accept_fails\":%llu}",
               (unsigned long long)S.steps, (unsigned long long)S.switches, (unsigned long long)S.preempts, (unsigned long long)S.blocks,
               (unsigned long long)vm_instrs,
               (unsigned long long)S.short_reads, (unsigned long long)S.short_writes, (unsigned long long)S.eintrs,
               (unsigned long long)S.blocked_writes, (unsigned long long)S.blocked_reads,
               (unsigned long long)S.sigpipe_kills, (unsigned long long)S.epipes, (unsigned long long)S.econnresets,
               (unsigned long long)S.eofs, (unsigned long long)S.conn_refused, (unsigned long long)S.backlog_waits,
               (unsigned long long)S.forks, (unsigned long long)S.execs, (unsigned long long)S.exec_fails,
               (unsigned long long)S.waitpid_nohang_zero, (unsigned long long)S.kills, (unsigned long long)S.zombie_delays,
               (unsigned long long)S.poll_timeouts, (unsigned long long)S.sleeps, (unsigned long long)S.mutex_contended,
               (unsigned long long)S.threads_created, (unsigned long long)S.flock_contended, (unsigned long long)S.img_swaps, (unsigned long long)S.accept_fails);
    buf_printf(o, ",\"probes\":{%.*s}", (int)r->probes.len, r->probes.d ? (char *)r->probes.d : "");
    if (r->extra.len) buf_printf(o, ",%.*s", (int)r->extra.len, (char *)r->extra.d);
    buf_printf(o, "}\n");
}

/* ---------------- knobs ---------------- */
void default_knobs(void) {
    memset(&K, 0, sizeof K);
    K.sock_cap = 65536; K.pipe_cap = 65536; K.max_steps = 2000000; K.max_blocks = 400000000ull;
}
void knobs_print(Buf *b) {
    buf_printf(b, "knob preempt_mean %d\nknob sched_policy %d\nknob pct_depth %d\nknob sock_cap %d\nknob pipe_cap %d\n"
               "knob short_read_pm %d\nknob short_write_pm %d\nknob eintr_pm %d\nknob zombie_delay_us %d\nknob accept_fail_pm %d\nknob stack_mode %d\nknob max_steps %llu\nknob max_blocks %llu\n",
               K.preempt_mean, K.sched_policy, K.pct_depth, K.sock_cap, K.pipe_cap, K.short_read_pm, K.short_write_pm,
               K.eintr_pm, K.zombie_delay_us, K.accept_fail_pm, K.stack_mode, (unsigned long long)K.max_steps, (unsigned long long)K.max_blocks);
}
bool knobs_parse_line(const char *line) {
    char name[32]; long long v;
    if (sscanf(line, "knob %31s %lld", name, &v) != 2) return false;
#define KN(f) if (strcmp(name, #f) == 0) { K.f = (__typeof__(K.f))v; return true; }
    KN(preempt_mean) KN(sched_policy) KN(pct_depth) KN(sock_cap) KN(pipe_cap) KN(short_read_pm) KN(short_write_pm)
    KN(eintr_pm) KN(zombie_delay_us) KN(accept_fail_pm) KN(stack_mode) KN(max_steps) KN(max_blocks)
    return true;
}

/* ---------------- fork + collect ---------------- */
extern struct SimShared { char cur_role[48]; char cur_image[16]; int cur_pid; uint64_t steps; } *sim_shared;
static char asan_dir[256];
int fork_collect(void (*fn)(void *arg, int fd), void *arg, Buf *out, int *status, char *crash_role, size_t crsz, Buf *asan) {
    int pf[2]; if (__real_pipe(pf)) return -1;
    fflush(stdout); fflush(stderr);
    strcpy(sim_shared->cur_role, "-");
    pid_t pid = fork();
    if (pid < 0) return -1;
    if (pid == 0) {
        __real_close(pf[0]);
        char lp[300]; snprintf(lp, sizeof lp, "%s/asan", asan_dir);
        __sanitizer_set_report_path(lp);
        fn(arg, pf[1]);
        __real__exit(0);
    }
    __real_close(pf[1]);
    char tmp[65536]; ssize_t n;
    while ((n = __real_read(pf[0], tmp, sizeof tmp)) > 0) buf_put(out, tmp, (size_t)n);
    __real_close(pf[0]);
    int st = 0; __real_waitpid(pid, &st, 0);
    *status = st;
    if (crash_role) snprintf(crash_role, crsz, "%s", sim_shared->cur_role);
    if (asan) {
        char lp[320]; snprintf(lp, sizeof lp, "%s/asan.%d", asan_dir, (int)pid);
        size_t an; uint8_t *d = slurp(lp, &an);
        if (d) { buf_put(asan, d, an); free(d); __real_unlink(lp); }
    }
    return 0;
}

/* ---------------- reference runs ---------------- */
static Ref refs[8192]; static int nrefs;
Ref *ref_lookup_key(const char *key) {
    for (int i = 0; i < nrefs; i++) if (strcmp(refs[i].key, key) == 0) return &refs[i];
    return NULL;
}
Ref *ref_lookup(const char *prog, int tok) { char k[64]; snprintf(k, sizeof k, "%s.%d", prog, tok); return ref_lookup_key(k); }
typedef struct RefArg { const uint8_t *d; size_t n; } RefArg;
static void ref_child(void *a, int fd) {
    RefArg *ra = a;
    sim_reset(); default_knobs(); K.max_blocks = 60000000; sim_seed(1);
    Buf out = {0}, err = {0};
    simfs_put("/sim/ref.nvm", ra->d, ra->n);
    static char *av[] = { "nano_vm", "/sim/ref.nvm", NULL };
    SimProc *p = sim_spawn("ref", "nano_vm", 2, av, &out, &err, 0);
    int rc = sim_run();
    uint32_t hdr[6] = { (uint32_t)out.len, (uint32_t)err.len, (uint32_t)p->status, (uint32_t)(rc == 0 && !p->alive), (uint32_t)vm_instrs, (uint32_t)deser_ok };
    ssize_t w = __real_write(fd, hdr, sizeof hdr);
    if (out.len) w = __real_write(fd, out.d, out.len);
    if (err.len) w = __real_write(fd, err.d, err.len);
    (void)w;
}
Ref *ref_get_blob(const char *key, const uint8_t *d, size_t n) {
    Ref *r = ref_lookup_key(key);
    if (r) return r;
    if (nrefs == 8192) return NULL;
    r = &refs[nrefs++]; memset(r, 0, sizeof *r);
    snprintf(r->key, sizeof r->key, "%s", key);
    RefArg ra = { d, n }; Buf o = {0}; int st = 0; char role[48];
    fork_collect(ref_child, &ra, &o, &st, role, sizeof role, NULL);
    if (WIFEXITED(st) && WEXITSTATUS(st) == 0 && o.len >= 24) {
        uint32_t hdr[6]; memcpy(hdr, o.d, 24);
        if (o.len == 24 + (size_t)hdr[0] + hdr[1]) {
            buf_put(&r->out, o.d + 24, hdr[0]); buf_put(&r->err, o.d + 24 + hdr[0], hdr[1]);
            r->status = (int)hdr[2]; r->valid = hdr[3] != 0; r->instrs = hdr[4]; r->deser_ok = hdr[5] != 0;
        }
    } else {
        /* the standalone VM itself crashed on this module: no reference (callers skip) */
        r->valid = false; r->crashed = true; r->status = st ? st : -1;
    }
    buf_free(&o);
    return r;
}
Ref *ref_get(const char *prog, int tok) {
    Module *m = corpus_find(prog, tok);
    if (!m) return NULL;
    char k[64]; snprintf(k, sizeof k, "%s.%d", prog, tok);
    return ref_get_blob(k, m->d, m->n);
}

/* ======================================================================
 * compile cache (zygote side)
 * ====================================================================== */
static Prog cprogs[8192]; static int nprog;
typedef struct CArg { const char *src; } CArg;
static void compile_child(void *a, int fd) {
    CArg *ca = a;
    sim_reset(); default_knobs(); sim_seed(1);
    simfs_put("/sim/src/prog.nano", ca->src, strlen(ca->src));
    Buf out = {0}, err = {0};
    static char *av[] = { "nano_virt", "/sim/src/prog.nano", "--emit-nvm", "-o", "/sim/out.nvm", NULL };
    SimProc *p = sim_spawn("virt", "nano_virt", 5, av, &out, &err, 0);
    sim_env_set(p, "HOME=/nonexistent");
    int rc = sim_run();
    FsNode *nd = simfs_lookup("/sim/out.nvm");
    if (rc == 0 && p->status == 0 && nd && nd->data.len) { ssize_t w = __real_write(fd, nd->data.d, nd->data.len); (void)w; }
    else if (__real_getenv("NANOSIM_SHOWCOMPILE")) { ssize_t w = __real_write(2, err.d, err.len); w = __real_write(2, out.d, out.len); (void)w; }
}
uint64_t fnv64(const char *s) { uint64_t h = 1469598103934665603ull; for (; *s; s++) { h ^= (uint8_t)*s; h *= 1099511628211ull; } return h; }
Prog *prog_lookup(const char *key) { for (int i = 0; i < nprog; i++) if (strcmp(cprogs[i].key, key) == 0) return &cprogs[i]; return NULL; }
Prog *prog_get(const char *src) {
    char key[40]; snprintf(key, sizeof key, "g%016llx", (unsigned long long)fnv64(src));
    Prog *p = prog_lookup(key);
    if (p) return p;
    if (nprog == 8192) return NULL;
    p = &cprogs[nprog++]; memset(p, 0, sizeof *p); snprintf(p->key, sizeof p->key, "%s", key);
    CArg ca = { src }; Buf o = {0}; int st = 0; char role[48];
    fork_collect(compile_child, &ca, &o, &st, role, sizeof role, NULL);
    if (WIFEXITED(st) && WEXITSTATUS(st) == 0 && o.len > 32) { p->d = o.d; p->n = o.len; p->ok = true; }
    return p;
}


/* ---------------- compile subcommand ---------------- */
static int cmd_compile(int argc, char **argv) {
    if (argc < 5) return 2;
    size_t n; uint8_t *src = slurp(argv[2], &n); if (!src) { fprintf(stderr, "cannot read %s\n", argv[2]); return 2; }
    /* substitute @TOKEN@ */
    Buf s = {0}; const char *tokstr = argv[3];
    for (size_t i = 0; i < n;) {
        if (i + 7 <= n && memcmp(src + i, "@TOKEN@", 7) == 0) { buf_put(&s, tokstr, strlen(tokstr)); i += 7; }
        else { buf_put(&s, src + i, 1); i++; }
    }
    sim_reset(); default_knobs(); sim_seed(1);
    simfs_put("/sim/src/prog.nano", s.d, s.len);
    Buf out = {0}, err = {0};
    static char *av[] = { "nano_virt", "/sim/src/prog.nano", "--emit-nvm", "-o", "/sim/out.nvm", NULL };
    SimProc *p = sim_spawn("virt", "nano_virt", 5, av, &out, &err, 0);
    sim_env_set(p, "HOME=/nonexistent");
    int rc = sim_run();
    FsNode *nd = simfs_lookup("/sim/out.nvm");
    if (rc || p->status != 0 || !nd || nd->data.len == 0) {
        fprintf(stderr, "compile failed rc=%d status=0x%x\n%.*s%.*s", rc, p->status, (int)out.len, out.d ? (char *)out.d : "",
                (int)err.len, err.d ? (char *)err.d : "");
        return 1;
    }
    FILE *f = __real_fopen(argv[4], "wb"); if (!f) return 2;
    fwrite(nd->data.d, 1, nd->data.len, f); fclose(f);
    return 0;
}

/* ---------------- run loop ---------------- */
static Family *families[] = { &fam_daemon, &fam_cop, &fam_store, &fam_heap, &fam_env,
    NULL };
typedef struct RunArg { Family *f; uint64_t seed; RunOpts *o; } RunArg;
static int g_result_fd = -1;
void plan_ready(Result *r) {
    Buf o = {0}; buf_printf(&o, "#PLAN "); json_str(&o, (char *)r->plan.d, r->plan.len); buf_printf(&o, "\n");
    ssize_t w = __real_write(g_result_fd, o.d, o.len); (void)w; buf_free(&o);
}
static void run_child(void *a, int fd) {
    RunArg *ra = a;
    g_result_fd = fd;
    if (!ra->o->trace) { int dn = __real_open("/dev/null", O_WRONLY); if (dn >= 0) { __real_dup2(dn, 2); __real_close(dn); } }
    Result r; memset(&r, 0, sizeof r);
    r.family = ra->f->name; r.seed = ra->seed; strcpy(r.verdict, "ok");
    sim_trace = ra->o->trace;
    ra->f->run(ra->seed, ra->o, &r);
    Buf o = {0}; result_emit(&r, &o);
    size_t off = 0;
    while (off < o.len) { ssize_t w = __real_write(fd, o.d + off, o.len - off); if (w <= 0) break; off += (size_t)w; }
}
const char *asan_site(Buf *asan, char *kind, size_t ksz, char *site, size_t ssz) {
    /* first line: "==pid==ERROR: AddressSanitizer: <kind> ..." ; frames "#n 0x.. in func file:line" */
    kind[0] = site[0] = 0;
    if (!asan->len) return NULL;
    buf_put(asan, "", 1);
    char *e = strstr((char *)asan->d, "AddressSanitizer: ");
    if (e) { e += 18; size_t l = strcspn(e, " \n"); if (l >= ksz) l = ksz - 1; memcpy(kind, e, l); kind[l] = 0; }
    char *p = (char *)asan->d;
    while ((p = strstr(p, " in "))) {
        p += 4;
        char *eol = strchr(p, '\n'); size_t l = eol ? (size_t)(eol - p) : strlen(p);
        char line[256]; if (l >= sizeof line) l = sizeof line - 1; memcpy(line, p, l); line[l] = 0;
        if (strstr(line, "/repo/src/")) {
            /* "func /repo/src/x.c:123" -> func@x.c */
            char fn[96] = "", file[160] = "";
            sscanf(line, "%95s %159s", fn, file);
            char *b = strrchr(file, '/'); b = b ? b + 1 : file;
            char *colon = strchr(b, ':'); if (colon) *colon = 0;
            snprintf(site, ssz, "%s@%s", fn, b);
            return site;
        }
    }
    return NULL;
}

int main(int argc, char **argv) {
    /* identical addresses on every run: replay must see the same pointers */
    if (!__real_getenv("NANOSIM_NOASLR")) {
        int pers = personality(0xffffffff);
        if (pers != -1 && !(pers & ADDR_NO_RANDOMIZE)) {
            personality(pers | ADDR_NO_RANDOMIZE);
            setenv("NANOSIM_NOASLR", "1", 1);
            execv("/proc/self/exe", argv);
        }
    }
    if (argc < 2) { fprintf(stderr, "usage: nanosim compile|run|replay ...\n"); return 2; }
    {   /* libc looks the private test locale up through LOCPATH (see __wrap_setlocale); the harness itself stays in "C" */
        extern int __real_setenv(const char *, const char *, int);
        char exe[600]; ssize_t n = readlink("/proc/self/exe", exe, sizeof exe - 32);
        if (n > 0) { exe[n] = 0; char *sl = strrchr(exe, '/'); if (sl) { strcpy(sl, "/locale"); __real_setenv("LOCPATH", exe, 1); } }
    }
    signal(SIGPIPE, SIG_IGN);
    sim_shared = mmap(NULL, 4096, PROT_READ | PROT_WRITE, MAP_SHARED | MAP_ANONYMOUS, -1, 0);
    snprintf(asan_dir, sizeof asan_dir, "%s", __real_getenv("NANOSIM_TMP") ? __real_getenv("NANOSIM_TMP") : "/verif/build/tmp");
    mkdir(asan_dir, 0755);
    { char sub[300]; snprintf(sub, sizeof sub, "%s/w%d", asan_dir, (int)getpid()); mkdir(sub, 0755); snprintf(asan_dir, sizeof asan_dir, "%s", sub); }
    /* ASan prints a one-time warning (with the pid) on the first swapcontext: get it over with, unseen */
    {
        static ucontext_t a, b; static char st[65536];
        extern void sim_dummy_ctx(void);
        getcontext(&b); b.uc_stack.ss_sp = st; b.uc_stack.ss_size = sizeof st; b.uc_link = &a;
        makecontext(&b, sim_dummy_ctx, 0);
        int e2 = __real_dup(2); int dn = __real_open("/dev/null", O_WRONLY);
        __real_dup2(dn, 2); swapcontext(&a, &b); __real_dup2(e2, 2); __real_close(e2); __real_close(dn);
    }
    sim_images_init();
    int rc = 0;
    if (strcmp(argv[1], "compile") == 0) { rc = cmd_compile(argc, argv); goto out; }
    if (strcmp(argv[1], "conform") == 0) {
        extern void *conform_sim_task(void *); extern Buf conform_out;
        sim_reset(); default_knobs(); sim_seed(1);
        sim_spawn_fn("conform", conform_sim_task, NULL, 0);
        int r = sim_run();
        fwrite(conform_out.d, 1, conform_out.len, stdout);
        if (r) { printf("sim did not reach quiescence\n"); rc = 1; }
        goto out;
    }

    corpus_load();
    bool replay = strcmp(argv[1], "replay") == 0;
    if (strcmp(argv[1], "run") != 0 && !replay) { fprintf(stderr, "unknown command\n"); rc = 2; goto out; }
    if (argc < 3) { rc = 2; goto out; }
    Family *fam = NULL;
    for (int i = 0; families[i]; i++) if (strcmp(families[i]->name, argv[2]) == 0) fam = families[i];
    if (!fam) { fprintf(stderr, "unknown family %s\n", argv[2]); rc = 2; goto out; }
    RunOpts o = { .tier = "quick" };
    uint64_t s0 = 1, s1 = 2;
    for (int i = 3; i < argc; i++) {
        if (!strcmp(argv[i], "--seeds") && i + 1 < argc) { sscanf(argv[++i], "%llu:%llu", (unsigned long long *)&s0, (unsigned long long *)&s1); }
        else if (!strcmp(argv[i], "--seed") && i + 1 < argc) { s0 = strtoull(argv[++i], 0, 10); s1 = s0 + 1; }
        else if (!strcmp(argv[i], "--tier") && i + 1 < argc) o.tier = argv[++i];
        else if (!strcmp(argv[i], "--plan") && i + 1 < argc) o.planfile = argv[++i];
        else if (!strcmp(argv[i], "--sub") && i + 1 < argc) o.sub = argv[++i];
        else if (!strcmp(argv[i], "--trace")) o.trace = true;
        else if (!strcmp(argv[i], "--base") && i + 1 < argc) o.base = strtoull(argv[++i], 0, 10);
    }
    if (replay) { s0 = 0; s1 = 1; }
    for (uint64_t seed = s0; seed < s1; seed++) {
        if (fam->prepare) fam->prepare(seed, &o);
        RunArg ra = { fam, seed, &o };
        Buf out = {0}, asan = {0}; int st = 0; char role[48] = "";
        if (__real_getenv("NANOSIM_NOFORK")) { run_child(&ra, 1); continue; }   /* debugging aid: run in this process (gdb, valgrind) */
        fork_collect(run_child, &ra, &out, &st, role, sizeof role, &asan);
        char *planline = NULL; size_t planlen = 0; char *resline = NULL;
        if (out.len) {
            buf_put(&out, "", 1); out.len--;
            char *p = (char *)out.d;
            if (strncmp(p, "#PLAN ", 6) == 0) { planline = p + 6; char *nl = strchr(p, '\n'); if (nl) { planlen = (size_t)(nl - planline); p = nl + 1; } else { planlen = strlen(planline); p += strlen(p); } }
            if (*p == '{' && out.d[out.len - 1] == '\n') resline = p;
        }
        if (WIFEXITED(st) && WEXITSTATUS(st) == 0 && resline) {
            fwrite(resline, 1, strlen(resline), stdout);
        } else {
            char kind[64], site[160];
            asan_site(&asan, kind, sizeof kind, site, sizeof site);
            Buf o2 = {0};
            buf_printf(&o2, "{\"family\":\"%s\",\"seed\":%llu,\"verdict\":\"crash\",\"role\":\"%s\",\"wstatus\":%d,\"kind\":\"%s\",\"site\":\"%s\",\"asan\":",
                       fam->name, (unsigned long long)seed, role, st, kind, site);
            size_t al = asan.len > 6000 ? 6000 : asan.len;
            json_str(&o2, asan.d ? (char *)asan.d : "", asan.d ? strnlen((char *)asan.d, al) : 0);
            if (planline) { buf_printf(&o2, ",\"plan\":%.*s", (int)planlen, planline); }
            buf_printf(&o2, "}\n");
            fwrite(o2.d, 1, o2.len, stdout); buf_free(&o2);
        }
        fflush(stdout);
        buf_free(&out); buf_free(&asan);
    }
out:
    rmdir(asan_dir);
    return rc;
}
void sim_dummy_ctx(void) {}
