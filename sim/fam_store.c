/* Family "store" (C12): a compiler-produced .nvm file goes through a simulated
 * disk fault stage (torn write of the real writer, truncation, bit flip, burst,
 * extended tail, magic/version damage) and is then given to the real loaders:
 * standalone nano_vm, and nano_vm --daemon against the real nano_vmd. */
#include "nanosim.h"
#include <stdlib.h>
#include <string.h>
#include <signal.h>
#include <sys/wait.h>
#include "nanoisa/nvm_format.h"

enum { FT_FLIP = 0, FT_TRUNC, FT_BURST, FT_EXTEND, FT_MAGIC, FT_VERSION, FT_TORN, FT_FLIPRANGE, FT_TRUNCRANGE, FT_HDRBITS, FT_BYTESWEEP, FT_NKINDS };
static const char *ft_name[] = { "flip", "trunc", "burst", "extend", "magic", "version", "torn", "fliprange", "truncrange", "hdrbits", "bytesweep" };
#define SWEEP_MAX_FILE 16384
typedef struct Fault { int kind; long a, b; unsigned long c; int via; } Fault;   /* via: 0 standalone, 1 daemon */
typedef struct SPlan { char prog[32]; int tok; int nf; Fault f[64]; bool sweep; } SPlan;

static uint32_t my_crc32(const uint8_t *d, size_t n) {
    uint32_t c = 0xFFFFFFFFu;
    for (size_t i = 0; i < n; i++) { c ^= d[i]; for (int k = 0; k < 8; k++) c = (c >> 1) ^ (0xEDB88320u & (0u - (c & 1))); }
    return ~c;
}

static void plan_gen(SPlan *P, uint64_t seed, const RunOpts *o) {
    memset(P, 0, sizeof *P);
    bool quick = strcmp(o->tier, "quick") == 0;
    sim_seed(seed); default_knobs();
    K.short_read_pm = sim_rndn(2) ? (int)sim_rndn(300) : 0;
    K.stack_mode = sim_rndn(3) == 0 ? 1 + (int)sim_rndn(256) : 0;
    int np = corpus_nprogs();
    if (!quick && seed >= o->base && (seed - o->base) % 2 == 0) {
        /* thorough: exhaustive sweeps of single-bit flips and truncation lengths, 512 positions per run */
        uint64_t idx = (seed - o->base) / 2;
        /* find file + chunk */
        for (int pass = 0; pass < 2; pass++) for (int i = 0; i < np; i++) {
            Module *m = corpus_find(corpus_prog(i), pass); if (!m || m->n > SWEEP_MAX_FILE) continue;   /* the >64 KiB image is covered by the seeded kinds only */
            uint64_t bits = (uint64_t)(m->n - NVM_HEADER_SIZE) * 8; uint64_t chunks = (bits + 511) / 512;
            if (idx < chunks) {
                snprintf(P->prog, sizeof P->prog, "%s", corpus_prog(i)); P->tok = pass;
                P->f[0] = (Fault){ FT_FLIPRANGE, (long)(NVM_HEADER_SIZE * 8 + idx * 512), (long)(NVM_HEADER_SIZE * 8 + (idx + 1) * 512 < m->n * 8 ? NVM_HEADER_SIZE * 8 + (idx + 1) * 512 : m->n * 8), 0, 0 };
                P->f[1] = (Fault){ FT_TRUNCRANGE, (long)(idx * 64 < m->n ? idx * 64 : m->n), (long)((idx + 1) * 64 < m->n ? (idx + 1) * 64 : m->n), 0, 0 };
                { long b0 = (long)(NVM_HEADER_SIZE + idx * 64), b1 = b0 + 64 < (long)m->n ? b0 + 64 : (long)m->n;
                  P->f[2] = (Fault){ FT_BYTESWEEP, b0, b1, 0, 0 }; }
                P->nf = 3; P->sweep = true; return;
            }
            idx -= chunks;
        }
    }
    snprintf(P->prog, sizeof P->prog, "%s", corpus_prog((int)sim_rndn((uint32_t)np)));
    P->tok = (int)sim_rndn((uint32_t)(corpus_ntoks(P->prog) ? corpus_ntoks(P->prog) : 1));
    Module *m = corpus_find(P->prog, P->tok);
    size_t n = m ? m->n : 64;
    P->nf = quick ? 40 : 60;
    /* every run also tries all 255 alterations of each byte in a window of the body (bursts of up to 8 bits inside one byte) */
    int nsweep = 1;
    for (int i = 0; i < P->nf; i++) {
        Fault *f = &P->f[i]; memset(f, 0, sizeof *f);
        uint32_t k = sim_rndn(100);
        { uint32_t q = sim_rndn(10); f->via = q < 2 ? 1 : q == 2 ? 2 : 0; }
        if (k < 30) { f->kind = FT_FLIP; f->a = (long)(NVM_HEADER_SIZE * 8 + sim_rndn((uint32_t)((n - NVM_HEADER_SIZE) * 8))); }
        else if (k < 50) { f->kind = FT_TRUNC; uint32_t r = sim_rndn(10); f->a = r == 0 ? 0 : r == 1 ? (long)n - 1 : r == 2 ? NVM_HEADER_SIZE : r == 3 ? NVM_HEADER_SIZE - 1 : (long)sim_rndn((uint32_t)n); }
        else if (k < 72) { f->kind = FT_BURST; f->b = 2 + sim_rndn(31); f->a = (long)(NVM_HEADER_SIZE * 8 + sim_rndn((uint32_t)((n - NVM_HEADER_SIZE) * 8 - (uint32_t)f->b + 1))); f->c = (unsigned long)(sim_rnd() | 1); }
        else if (k < 86) { f->kind = FT_EXTEND; f->a = sim_rndn(3); f->b = 1 + sim_rndn(sim_rndn(4) == 0 ? 4096 : 64); f->c = (unsigned long)sim_rnd(); }
        else if (k < 92) { f->kind = FT_MAGIC; f->a = sim_rndn(4); f->c = 1 + sim_rndn(255); }
        else if (k < 94) { f->kind = FT_VERSION;
            /* any value but the right one: small ones, single-bit neighbours of the right one, values that agree with it in their low half or low byte, random words */
            static const uint32_t wide[] = { 0x00010001u, 0x80000001u, 0xFFFF0001u, 0x01000001u, 0x00000101u, 0x01000000u, 0x00010000u, 0xFFFFFFFFu };
            uint32_t q = sim_rndn(5);
            f->c = q == 0 ? 0 : q == 1 ? 2 + sim_rndn(1000) : q == 2 ? (NVM_FORMAT_VERSION ^ (1u << sim_rndn(32))) : q == 3 ? wide[sim_rndn(8)] : (unsigned long)(uint32_t)sim_rnd(); }
        else if (k < 96) { f->kind = FT_HDRBITS; f->a = 8 * (long)sim_rndn(8); f->b = f->a + 8; }
        else { f->kind = FT_TORN; f->a = (long)sim_rndn((uint32_t)n); f->via = 0; }
    }
    for (int i = 0; i < nsweep && P->nf < 64 && n > NVM_HEADER_SIZE + 1; i++) {
        Fault *f = &P->f[P->nf++]; memset(f, 0, sizeof *f);
        f->kind = FT_BYTESWEEP; f->a = (long)(NVM_HEADER_SIZE + sim_rndn((uint32_t)(n - NVM_HEADER_SIZE)));
        long win = quick ? 128 : 256; if (n > 16384) win = (long)(2000000 / n) + 1;   /* each candidate costs a checksum over the whole file */
        f->b = f->a + win; if (f->b > (long)n) f->b = (long)n;
    }
}
static void plan_print(SPlan *P, uint64_t seed, Buf *b) {
    buf_printf(b, "family store\nseed %llu\n", (unsigned long long)seed);
    knobs_print(b);
    buf_printf(b, "file %s %d\n", P->prog, P->tok);
    for (int i = 0; i < P->nf; i++) buf_printf(b, "fault kind=%s a=%ld b=%ld c=%lu via=%s\n", ft_name[P->f[i].kind], P->f[i].a, P->f[i].b, P->f[i].c, P->f[i].via == 1 ? "daemon" : P->f[i].via == 2 ? "fifo" : "vm");
}
static bool plan_parse(SPlan *P, uint64_t *seed, const char *path) {
    FILE *f = __real_fopen(path, "r"); if (!f) return false;
    memset(P, 0, sizeof *P); default_knobs();
    char line[512];
    while (fgets(line, sizeof line, f)) {
        unsigned long long s; char k[32], v[16]; long a, b; unsigned long c; int t;
        if (sscanf(line, "seed %llu", &s) == 1) *seed = s;
        else if (strncmp(line, "knob ", 5) == 0) knobs_parse_line(line);
        else if (sscanf(line, "file %31s %d", k, &t) == 2) { snprintf(P->prog, sizeof P->prog, "%s", k); P->tok = t; }
        else if (sscanf(line, "fault kind=%31s a=%ld b=%ld c=%lu via=%15s", k, &a, &b, &c, v) == 5 && P->nf < 64) {
            for (int i = 0; i < FT_NKINDS; i++) if (!strcmp(ft_name[i], k)) { P->f[P->nf] = (Fault){ i, a, b, c, strcmp(v, "daemon") == 0 ? 1 : strcmp(v, "fifo") == 0 ? 2 : 0 }; P->nf++; break; }
        }
    }
    fclose(f);
    return true;
}

/* ---------------- the torn writer ---------------- */
static bool torn_write(const char *src_text, long at, Buf *out) {
    /* run the real compiler into SimFS with a crash point inside its stdio flushes */
    simfs_put("/sim/src/prog.nano", src_text, strlen(src_text));
    FsNode *old = simfs_lookup("/sim/torn.nvm"); if (old) simfs_unlink_node(old);
    FsNode *nd = simfs_create("/sim/torn.nvm", 0);
    nd->limit_on = true; nd->write_limit = (uint64_t)at; nd->written = 0;   /* exactly `at` bytes reach the disk */
    static char *av[] = { "nano_virt", "/sim/src/prog.nano", "--emit-nvm", "-o", "/sim/torn.nvm", NULL };
    static Buf o, e; o.len = e.len = 0;
    SimProc *p = sim_spawn("nano_virt", "nano_virt", 5, av, &o, &e, sim_now_us());
    sim_env_set(p, "HOME=/nonexistent");
    sim_run();
    out->len = 0; buf_put(out, nd->data.d, nd->data.len);
    return true;
}

/* ---------------- one instance ---------------- */
typedef struct Outcome { int status; size_t outlen, errlen; uint64_t execs, dok, dfail; bool finished; } Outcome;
extern uint64_t vm_execs, deser_ok, deser_fail;
static Buf i_out, i_err;
static Outcome consume_vm(const uint8_t *d, size_t n) {
    Outcome oc; memset(&oc, 0, sizeof oc);
    simfs_put("/sim/f.nvm", d, n);
    uint64_t e0 = vm_execs, k0 = deser_ok, f0 = deser_fail;
    i_out.len = i_err.len = 0;
    static char *av[] = { "nano_vm", "/sim/f.nvm", NULL };
    SimProc *p = sim_spawn("nano_vm", "nano_vm", 2, av, &i_out, &i_err, sim_now_us());
    int rc = sim_run();
    oc.finished = rc == 0 && !p->alive; oc.status = p->status; oc.outlen = i_out.len; oc.errlen = i_err.len;
    oc.execs = vm_execs - e0; oc.dok = deser_ok - k0; oc.dfail = deser_fail - f0;
    return oc;
}
/* the same bytes offered through a named pipe: no size to ask for, no seeking, only a stream that ends */
static Outcome consume_fifo(const uint8_t *d, size_t n) {
    Outcome oc; memset(&oc, 0, sizeof oc);
    simfs_put("/sim/f.fifo", d, n);
    FsNode *nd = simfs_lookup("/sim/f.fifo"); if (nd) nd->kind = 2;
    uint64_t e0 = vm_execs, k0 = deser_ok, f0 = deser_fail;
    i_out.len = i_err.len = 0;
    static char *av[] = { "nano_vm", "/sim/f.fifo", NULL };
    SimProc *p = sim_spawn("nano_vm", "nano_vm", 2, av, &i_out, &i_err, sim_now_us());
    int rc = sim_run();
    oc.finished = rc == 0 && !p->alive; oc.status = p->status; oc.outlen = i_out.len; oc.errlen = i_err.len;
    oc.execs = vm_execs - e0; oc.dok = deser_ok - k0; oc.dfail = deser_fail - f0;
    if (nd) nd->kind = 0;
    return oc;
}
static SimProc *g_daemon;
static Outcome consume_daemon(const uint8_t *d, size_t n) {
    Outcome oc; memset(&oc, 0, sizeof oc);
    simfs_put("/sim/f.nvm", d, n);
    static Buf dout, derr;
    if (!g_daemon || !g_daemon->alive) {
        static char *dv[] = { "nano_vmd", "--foreground", "--no-timeout", NULL };
        g_daemon = sim_spawn("nano_vmd", "nano_vmd", 3, dv, &dout, &derr, sim_now_us());
    }
    uint64_t e0 = vm_execs, k0 = deser_ok, f0 = deser_fail;
    i_out.len = i_err.len = 0;
    static char *av[] = { "nano_vm", "--daemon", "/sim/f.nvm", NULL };
    SimProc *p = sim_spawn("nano_vm", "nano_vm", 3, av, &i_out, &i_err, sim_now_us() + 1000);
    int rc = sim_run();
    oc.finished = rc == 0 && !p->alive && g_daemon->alive; oc.status = p->status; oc.outlen = i_out.len; oc.errlen = i_err.len;
    oc.execs = vm_execs - e0; oc.dok = deser_ok - k0; oc.dfail = deser_fail - f0;
    return oc;
}

static uint64_t n_inst, n_collision, n_unchanged, kinds_done[FT_NKINDS], n_daemon;
static uint64_t n_prefiltered, n_prefilter_accepted, n_fifo;
static bool judge(Result *r, const char *what, const uint8_t *d, size_t n, const uint8_t *orig, size_t on, int via, long a, long b) {
    if (n == on && memcmp(d, orig, n) == 0) { n_unchanged++; return true; }
    if (n >= NVM_HEADER_SIZE) {
        /* a damaged body whose CRC-32 still equals the stored checksum cannot be refused by any 32-bit checksum */
        uint32_t stored = (uint32_t)d[NVM_HEADER_SIZE - 4] | (uint32_t)d[NVM_HEADER_SIZE - 3] << 8 | (uint32_t)d[NVM_HEADER_SIZE - 2] << 16 | (uint32_t)d[NVM_HEADER_SIZE - 1] << 24;
        if (my_crc32(d + NVM_HEADER_SIZE, n - NVM_HEADER_SIZE) == stored && memcmp(d, orig, 8) == 0) { n_collision++; return true; }
    }
    n_inst++;
    sim_forget_dead();
    Outcome oc = via == 1 ? consume_daemon(d, n) : via == 2 ? consume_fifo(d, n) : consume_vm(d, n);
    if (via == 1) n_daemon++; if (via == 2) n_fifo++;
    const char *clause = NULL;
    if (!oc.finished) clause = "consumer-did-not-finish";
    else if (WIFSIGNALED(oc.status)) clause = "consumer-killed";
    else if (oc.execs) clause = "executed";
    else if (oc.dok) clause = "loader-returned-module";
    else if (WEXITSTATUS(oc.status) == 0) clause = "exit0";
    else if (oc.outlen) clause = "program-output";
    else if (oc.errlen == 0) clause = "no-error-text";
    if (clause) {
        res_violation(r, "C12", "%s:%s:%s", clause, what, via == 1 ? "daemon" : via == 2 ? "fifo" : "vm");
        buf_printf(&r->detail, "damaged file (%s a=%ld b=%ld, %zu bytes, original %zu) via %s: %s (status=0x%x stdout=%zuB stderr=%zuB vm_execute calls=%llu nvm_deserialize ok=%llu fail=%llu)\n",
                   what, a, b, n, on, via == 1 ? "daemon" : via == 2 ? "nano_vm reading a named pipe" : "nano_vm", clause, oc.status, oc.outlen, oc.errlen,
                   (unsigned long long)oc.execs, (unsigned long long)oc.dok, (unsigned long long)oc.dfail);
        return false;
    }
    return true;
}

static char *corpus_source(const char *prog, int tok) {
    char path[256]; snprintf(path, sizeof path, "/verif/corpus/%s.nano", prog);
    FILE *f = __real_fopen(path, "rb"); if (!f) return NULL;
    Buf s = {0}; char tmp[4096]; size_t n;
    while ((n = fread(tmp, 1, sizeof tmp, f)) > 0) buf_put(&s, tmp, n);
    fclose(f); buf_put(&s, "", 1);
    Buf o = {0}; char ts[16]; snprintf(ts, sizeof ts, "%d", tok);
    for (size_t i = 0; i + 1 < s.len;) {
        if (i + 7 < s.len && memcmp(s.d + i, "@TOKEN@", 7) == 0) { buf_put(&o, ts, strlen(ts)); i += 7; }
        else { buf_put(&o, s.d + i, 1); i++; }
    }
    buf_put(&o, "", 1); buf_free(&s);
    return (char *)o.d;
}

static void fam_prepare(uint64_t seed, const RunOpts *o) {
    static SPlan P; uint64_t s = seed;
    if (o->planfile) { if (!plan_parse(&P, &s, o->planfile)) return; } else plan_gen(&P, seed, o);
    ref_get(P.prog, P.tok);
}
static void fam_run(uint64_t seed, const RunOpts *o, Result *r) {
    static SPlan P;
    if (o->planfile) { if (!plan_parse(&P, &seed, o->planfile)) { strcpy(r->verdict, "error"); return; } r->seed = seed; }
    else plan_gen(&P, seed, o);
    plan_print(&P, seed, &r->plan);
    plan_ready(r);
    Module *m = corpus_find(P.prog, P.tok);
    Ref *ref = ref_lookup(P.prog, P.tok);
    if (!m || !ref || !ref->valid) { strcpy(r->verdict, "skip"); return; }
    SimKnobs saved = K; sim_reset(); K = saved; sim_seed(seed ^ 0xC12ull);
    g_daemon = NULL; n_inst = n_collision = n_unchanged = n_daemon = 0; n_prefiltered = n_prefilter_accepted = n_fifo = 0; memset(kinds_done, 0, sizeof kinds_done);

    /* control arm: the unfaulted file loads, runs and matches its reference */
    Outcome c0 = consume_vm(m->d, m->n);
    bool control_ok = c0.finished && c0.dok == 1 && c0.execs == 1 && c0.outlen == ref->out.len && c0.status == ref->status;
    if (!control_ok) { strcpy(r->verdict, "skip"); buf_printf(&r->detail, "control arm failed: unfaulted file did not load/run as in the reference"); return; }

    /* second control arm: the same long-lived daemon first loads and runs the INTACT file; every damaged copy that
     * follows goes to that same process (a loader that remembers what it has verified must not be fooled) */
    bool any_daemon = false; for (int i = 0; i < P.nf; i++) any_daemon |= P.f[i].via == 1;
    if (any_daemon) {
        Outcome cd = consume_daemon(m->d, m->n);
        bool dok = cd.finished && cd.dok >= 1 && cd.execs == 1 && cd.outlen == ref->out.len;
        probe(r, "daemon_control_arm_ok", dok);
        if (!dok) { strcpy(r->verdict, "skip"); buf_printf(&r->detail, "daemon control arm failed: the unfaulted file did not run through the daemon"); return; }
    }
    uint8_t *w = malloc(m->n + 8192);
    for (int i = 0; i < P.nf && strcmp(r->verdict, "violation") != 0; i++) {
        Fault *f = &P.f[i];
        kinds_done[f->kind]++;
        size_t n = m->n; memcpy(w, m->d, n);
        switch (f->kind) {
        case FT_FLIP: if ((size_t)f->a / 8 < n) w[f->a / 8] ^= (uint8_t)(1u << (f->a % 8)); judge(r, "flip", w, n, m->d, m->n, f->via, f->a, 0); break;
        case FT_TRUNC: if ((size_t)f->a < n) n = (size_t)f->a; judge(r, "trunc", w, n, m->d, m->n, f->via, f->a, 0); break;
        case FT_BURST:
            for (long k = 0; k < f->b; k++) if ((f->c >> (k % 64)) & 1 || k == 0 || k == f->b - 1) { long bit = f->a + k; if ((size_t)bit / 8 < n) w[bit / 8] ^= (uint8_t)(1u << (bit % 8)); }
            judge(r, "burst", w, n, m->d, m->n, f->via, f->a, f->b); break;
        case FT_EXTEND: {
            uint64_t x = f->c | 1;
            for (long k = 0; k < f->b; k++) { x ^= x << 13; x ^= x >> 7; x ^= x << 17; w[n + (size_t)k] = f->a == 0 ? (uint8_t)x : f->a == 1 ? 0 : m->d[(size_t)k % m->n]; }
            n += (size_t)f->b; judge(r, "extend", w, n, m->d, m->n, f->via, f->a, f->b); break; }
        case FT_MAGIC: w[f->a & 3] ^= (uint8_t)f->c; judge(r, "magic", w, n, m->d, m->n, f->via, f->a, (long)f->c); break;
        case FT_VERSION: { uint32_t v = (uint32_t)f->c; if (v == NVM_FORMAT_VERSION) v++; w[4] = (uint8_t)v; w[5] = (uint8_t)(v >> 8); w[6] = (uint8_t)(v >> 16); w[7] = (uint8_t)(v >> 24);
            judge(r, "version", w, n, m->d, m->n, f->via, (long)v, 0); break; }
        case FT_TORN: {
            char *src = corpus_source(P.prog, P.tok); if (!src) break;
            Buf t = {0}; torn_write(src, f->a, &t); free(src);
            judge(r, "torn", t.d ? t.d : (uint8_t *)"", t.len, m->d, m->n, 0, f->a, (long)t.len);
            buf_free(&t); break; }
        case FT_HDRBITS:   /* every single-bit alteration of the magic number and of the format version */
            for (long bit = f->a; bit < f->b && bit < 64; bit++) { memcpy(w, m->d, m->n); w[bit / 8] ^= (uint8_t)(1u << (bit % 8)); if (!judge(r, bit < 32 ? "magic" : "version", w, m->n, m->d, m->n, f->via, bit, 0)) break; }
            break;
        case FT_BYTESWEEP: {
            /* 255 x (b-a) damaged copies are first offered to the tree's own loader in-process (the harness links a copy of
             * nvm_format.c compiled from the working tree); whatever that accepts is then given to a real nano_vm process */
            bool stop = false;
            for (long pos = f->a; pos < f->b && !stop; pos++) for (int mask = 1; mask < 256 && !stop; mask++) {
                if ((size_t)pos >= m->n) break;
                w[pos] = m->d[pos] ^ (uint8_t)mask;
                NvmModule *lm = nvm_deserialize(w, (uint32_t)m->n);
                n_prefiltered++;
                if (lm) { nvm_module_free(lm); n_prefilter_accepted++; if (!judge(r, "burst", w, m->n, m->d, m->n, 0, pos * 8, mask)) stop = true; }
                w[pos] = m->d[pos];
            }
            break; }
        case FT_FLIPRANGE:
            for (long bit = f->a; bit < f->b; bit++) { memcpy(w, m->d, m->n); w[bit / 8] ^= (uint8_t)(1u << (bit % 8)); if (!judge(r, "flip", w, m->n, m->d, m->n, 0, bit, 0)) break; }
            break;
        case FT_TRUNCRANGE:
            for (long l = f->a; l < f->b; l++) { if (!judge(r, "trunc", m->d, (size_t)l, m->d, m->n, 0, l, 0)) break; }
            break;
        }
    }
    free(w);
    r->nontrivial = n_inst > 0;
    snprintf(r->class_key, sizeof r->class_key, "%s.%d/%llu", P.prog, P.tok, (unsigned long long)seed);
    probe(r, "fault_instances", n_inst); probe(r, "true_crc_collisions_skipped", n_collision); probe(r, "unchanged_skipped", n_unchanged);
    probe(r, "inbyte_bursts_offered_to_loader", n_prefiltered); probe(r, "inbyte_bursts_loader_accepted", n_prefilter_accepted);
    probe(r, "via_daemon", n_daemon); probe(r, "via_named_pipe", n_fifo); probe(r, "control_arm_ok", 1); probe(r, "exhaustive_sweep_chunks", P.sweep);
    { uint64_t total = 0; for (int tk = 0; tk < 2; tk++) for (int i = 0; i < corpus_nprogs(); i++) { Module *cm = corpus_find(corpus_prog(i), tk); if (cm && cm->n <= SWEEP_MAX_FILE) total += ((uint64_t)(cm->n - NVM_HEADER_SIZE) * 8 + 511) / 512; }
      buf_printf(&r->extra, "\"sweep_total_chunks\":%llu", (unsigned long long)total); }
    for (int k = 0; k < FT_NKINDS; k++) { char nm[32]; snprintf(nm, sizeof nm, "kind_%s", ft_name[k]); probe(r, nm, kinds_done[k]); }
}
Family fam_store = { "store", fam_run, fam_prepare };
