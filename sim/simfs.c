/* SimFS: in-memory files for the paths a scenario owns (/sim/..., the daemon's
 * pid file and socket), everything else passes through to the real file
 * system.  Also the stubs for external tools (system/popen/posix_spawn). */
#include "kernel.h"
#include <stdlib.h>
#include <string.h>
#include <stdarg.h>
#include <errno.h>
#include <fcntl.h>
#include <unistd.h>
#include <dirent.h>
#include <sys/stat.h>
#include <sys/file.h>
#include <spawn.h>

#define MAXNODES 256
static FsNode *nodes[MAXNODES]; static int nnodes;

bool simfs_owns(const char *path) {
    return strncmp(path, "/sim/", 5) == 0 || strncmp(path, "/tmp/nanolang_vm_", 17) == 0;
}
void simfs_reset(void) {
    for (int i = 0; i < nnodes; i++) { buf_free(&nodes[i]->data); free(nodes[i]); }
    nnodes = 0;
}
FsNode *simfs_lookup(const char *path) {
    for (int i = 0; i < nnodes; i++) if (nodes[i]->links && strcmp(nodes[i]->path, path) == 0) return nodes[i];
    return NULL;
}
FsNode *simfs_create(const char *path, int kind) {
    if (nnodes == MAXNODES) { fprintf(stderr, "nanosim: SimFS full\n"); abort(); }
    FsNode *n = calloc(1, sizeof *n);
    snprintf(n->path, sizeof n->path, "%s", path);
    n->kind = kind; n->links = 1;
    nodes[nnodes++] = n;
    return n;
}
void simfs_put(const char *path, const void *data, size_t len) {
    FsNode *n = simfs_lookup(path);
    if (!n) n = simfs_create(path, 0);
    n->data.len = 0;
    buf_put(&n->data, data, len);
}
void simfs_unlink_node(FsNode *n) { n->links = 0; }

/* lexical normalisation of an absolute path: "//", "/./", "/x/../" */
static void normalise(char *p) {
    char *out = p, *in = p;
    while (*in) {
        if (in[0] == '/' && in[1] == '/') { in++; continue; }
        if (in[0] == '/' && in[1] == '.' && (in[2] == '/' || in[2] == 0)) { in += 2; if (!*in && out == p) *out++ = '/'; continue; }
        if (in[0] == '/' && in[1] == '.' && in[2] == '.' && (in[3] == '/' || in[3] == 0)) {
            in += 3;
            while (out > p && out[-1] != '/') out--;
            if (out > p) out--;
            if (!*in && out == p) *out++ = '/';
            continue;
        }
        *out++ = *in++;
    }
    *out = 0;
}
/* resolve a path of the current process; returns NULL when it is not ours */
static const char *resolve(const char *path, char *tmp, size_t tsz) {
    if (!path) return NULL;
    if (path[0] == '/') {
        if (!strstr(path, "/.") && !strstr(path, "//")) return simfs_owns(path) ? path : NULL;
        snprintf(tmp, tsz, "%s", path); normalise(tmp);
        return simfs_owns(tmp) ? tmp : NULL;
    }
    SimProc *p = sim_cur_proc();
    if (p && strncmp(p->cwd, "/sim/", 5) == 0) {
        snprintf(tmp, tsz, "%s/%s", p->cwd, path); normalise(tmp);
        return simfs_owns(tmp) ? tmp : NULL;
    }
    return NULL;
}
FsNode *simfs_find_prefix(const char *prefix, const char *suffix) {
    size_t pl = strlen(prefix), sl = strlen(suffix);
    for (int i = nnodes - 1; i >= 0; i--) {
        size_t l = strlen(nodes[i]->path);
        if (l >= pl + sl && strncmp(nodes[i]->path, prefix, pl) == 0 && strcmp(nodes[i]->path + l - sl, suffix) == 0) return nodes[i];
    }
    return NULL;
}

/* ---------------- fd level ---------------- */
extern SimFile *simk_file_new_reg(FsNode *n, int oflags);
extern int simk_fd_install(SimFile *f);
extern SimFile *simk_fd_get(int fd);
extern void simk_note_syscall(const char *name, int fd);

int __wrap_open(const char *path, int flags, ...) {
    mode_t m = 0;
    if (flags & O_CREAT) { va_list ap; va_start(ap, flags); m = (mode_t)va_arg(ap, int); va_end(ap); }
    if (!sim_cur_proc()) return __real_open(path, flags, m);
    simk_note_syscall("open", -1);
    if (strcmp(path, "/dev/null") == 0) return simk_fd_install(simk_file_new_reg(NULL, flags));
    char tmp[512]; const char *rp = resolve(path, tmp, sizeof tmp);
    if (!rp) {
        if ((flags & O_ACCMODE) != O_RDONLY) { sim_event("open-real-write %s", path); }
        return __real_open(path, flags, m);   /* real fd numbers are not in the sim fd table */
    }
    FsNode *n = simfs_lookup(rp);
    if (!n) {
        if (!(flags & O_CREAT)) { errno = ENOENT; return -1; }
        n = simfs_create(rp, 0);
    } else if ((flags & O_CREAT) && (flags & O_EXCL)) { errno = EEXIST; return -1; }
    if (n->kind == 1) { errno = ENXIO; return -1; }
    if (flags & O_TRUNC) n->data.len = 0;
    n->opens++;
    return simk_fd_install(simk_file_new_reg(n, flags));
}
int __wrap_open64(const char *path, int flags, ...) {
    mode_t m = 0;
    if (flags & O_CREAT) { va_list ap; va_start(ap, flags); m = (mode_t)va_arg(ap, int); va_end(ap); }
    return __wrap_open(path, flags, m);
}
int __real_flock(int, int);
int __wrap_flock(int fd, int op) {
    if (!sim_cur_proc()) return __real_flock(fd, op);
    simk_note_syscall("flock", fd);
    SimFile *f = simk_fd_get(fd);
    if (!f || f->kind != F_REG || !f->node) { errno = EBADF; return -1; }
    sim_yield_point();
    FsNode *n = f->node;
    if (op & LOCK_UN) { if (n->lock_owner == f) n->lock_owner = NULL; return 0; }
    if (n->lock_owner && n->lock_owner != f) {
        if (op & LOCK_NB) { S.flock_contended++; errno = EWOULDBLOCK; return -1; }
        /* blocking flock is not used by the images; treat as contended failure */
        S.flock_contended++; errno = EWOULDBLOCK; return -1;
    }
    n->lock_owner = f;
    return 0;
}
int __real_unlink(const char *);
int __wrap_unlink(const char *path) {
    if (!sim_cur_proc()) return __real_unlink(path);
    simk_note_syscall("unlink", -1);
    char tmp[512]; const char *rp = resolve(path, tmp, sizeof tmp);
    if (!rp) { sim_event("unlink-real %s", path); return __real_unlink(path); }
    FsNode *n = simfs_lookup(rp);
    if (!n) { errno = ENOENT; return -1; }
    n->links = 0;
    return 0;
}
int __wrap_remove(const char *path) { return __wrap_unlink(path); }
int __real_rename(const char *, const char *);
int __wrap_rename(const char *a, const char *b) {
    if (!sim_cur_proc()) return __real_rename(a, b);
    char t1[512], t2[512]; const char *ra = resolve(a, t1, sizeof t1), *rb = resolve(b, t2, sizeof t2);
    if (!ra && !rb) return __real_rename(a, b);
    if (!ra || !rb) { errno = EXDEV; return -1; }
    FsNode *n = simfs_lookup(ra); if (!n) { errno = ENOENT; return -1; }
    FsNode *o = simfs_lookup(rb); if (o) o->links = 0;
    snprintf(n->path, sizeof n->path, "%s", rb);
    return 0;
}
int __real_chmod(const char *, mode_t);
int __wrap_chmod(const char *path, mode_t m) {
    if (!sim_cur_proc()) return __real_chmod(path, m);
    char tmp[512]; const char *rp = resolve(path, tmp, sizeof tmp);
    if (!rp) return __real_chmod(path, m);
    return simfs_lookup(rp) ? 0 : (errno = ENOENT, -1);
}
int __real_access(const char *, int);
int __wrap_access(const char *path, int m) {
    if (!sim_cur_proc()) return __real_access(path, m);
    char tmp[512]; const char *rp = resolve(path, tmp, sizeof tmp);
    if (!rp) {
        if (strncmp(path, "/sim-bin/", 9) == 0) return 0;   /* siblings of the simulated executable exist */
        return __real_access(path, m);
    }
    return simfs_lookup(rp) ? 0 : (errno = ENOENT, -1);
}
int __real_stat(const char *, struct stat *);
int __wrap_stat(const char *path, struct stat *st) {
    if (!sim_cur_proc()) return __real_stat(path, st);
    char tmp[512]; const char *rp = resolve(path, tmp, sizeof tmp);
    if (!rp) return __real_stat(path, st);
    FsNode *n = simfs_lookup(rp);
    if (!n) {
        /* directories under /sim exist implicitly when some node lives below them */
        size_t l = strlen(rp);
        extern int simfs_has_prefix(const char *, size_t);
        if (simfs_has_prefix(rp, l)) { memset(st, 0, sizeof *st); st->st_mode = S_IFDIR | 0755; return 0; }
        errno = ENOENT; return -1;
    }
    memset(st, 0, sizeof *st);
    st->st_mode = (n->kind == 1 ? S_IFSOCK : n->kind == 2 ? S_IFIFO : S_IFREG) | 0644; st->st_size = n->kind == 2 ? 0 : (off_t)n->data.len; st->st_nlink = 1;
    return 0;
}
int simfs_has_prefix(const char *dir, size_t l) {
    for (int i = 0; i < nnodes; i++)
        if (nodes[i]->links && strncmp(nodes[i]->path, dir, l) == 0 && (nodes[i]->path[l] == '/' || dir[l - 1] == '/')) return 1;
    return strcmp(dir, "/sim") == 0 || strcmp(dir, "/sim/") == 0 || strncmp(dir, "/sim/cwd", 8) == 0 || strncmp(dir, "/sim/tmp", 8) == 0;
}
int __real_mkdir(const char *, mode_t);
int __wrap_mkdir(const char *path, mode_t m) {
    if (!sim_cur_proc()) return __real_mkdir(path, m);
    char tmp[512]; const char *rp = resolve(path, tmp, sizeof tmp);
    if (!rp) { sim_event("mkdir-real %s", path); return __real_mkdir(path, m); }
    return 0;
}
ssize_t __real_readlink(const char *, char *, size_t);
ssize_t __wrap_readlink(const char *p, char *b, size_t n) {
    if (!sim_cur_proc()) return __real_readlink(p, b, n);
    if (strcmp(p, "/proc/self/exe") == 0) {
        char s[128]; snprintf(s, sizeof s, "/sim-bin/%s", sim_cur_proc()->name);
        size_t l = strlen(s); if (l > n) l = n; memcpy(b, s, l); return (ssize_t)l;
    }
    return __real_readlink(p, b, n);
}
char *__real_getcwd(char *, size_t);
char *__wrap_getcwd(char *buf, size_t n) {
    SimProc *p = sim_cur_proc();
    if (!p || strncmp(p->cwd, "/sim/", 5) != 0) return __real_getcwd(buf, n);
    if (!buf) return strdup(p->cwd);
    if (strlen(p->cwd) + 1 > n) { errno = ERANGE; return NULL; }
    strcpy(buf, p->cwd); return buf;
}
int __real_chdir(const char *);
int __wrap_chdir(const char *path) {
    SimProc *p = sim_cur_proc();
    if (!p) return __real_chdir(path);
    if (strncmp(path, "/sim/", 5) == 0) { snprintf(p->cwd, sizeof p->cwd, "%s", path); return 0; }
    sim_event("chdir-real %s", path);
    int r = __real_chdir(path);
    if (r == 0) { if (!__real_getcwd(p->cwd, sizeof p->cwd)) p->cwd[0] = 0; }
    return r;
}

/* ---------------- FILE* level ---------------- */
typedef struct SimOpenFILE { FILE *f; struct SimOpenFILE *next; bool closed; } SimOpenFILE;
typedef struct RegCookie { SimProc *p; FsNode *n; size_t pos; int oflags; SimOpenFILE *rec; bool dead; } RegCookie;
extern void simk_kill_self(int sig);
static ssize_t rc_read(void *c, char *buf, size_t n) {
    RegCookie *rc = c; FsNode *nd = rc->n;
    if (rc->pos >= nd->data.len) return 0;
    size_t k = nd->data.len - rc->pos; if (k > n) k = n;
    memcpy(buf, nd->data.d + rc->pos, k); rc->pos += k; return (ssize_t)k;
}
static ssize_t rc_write(void *c, const char *buf, size_t n) {
    RegCookie *rc = c; FsNode *nd = rc->n;
    size_t want = n; bool crash = false;
    if (rc->dead) return (ssize_t)n;
    if (nd->limit_on && nd->written + n >= nd->write_limit) { want = (size_t)(nd->write_limit - nd->written); crash = true; }
    if (rc->oflags & O_APPEND) rc->pos = nd->data.len;
    if (rc->pos + want > nd->data.len) {
        size_t old = nd->data.len;
        if (rc->pos + want > nd->data.cap) { nd->data.cap = (rc->pos + want) * 2 + 64; nd->data.d = realloc(nd->data.d, nd->data.cap); }
        if (rc->pos > old) memset(nd->data.d + old, 0, rc->pos - old);
        nd->data.len = rc->pos + want;
    }
    memcpy(nd->data.d + rc->pos, buf, want);
    rc->pos += want; nd->written += want;
    if (crash) {
        rc->dead = true;
        if (sim_cur_proc() == rc->p) simk_kill_self(9);   /* the writer dies inside this flush */
    }
    return (ssize_t)n;
}
static int rc_seek(void *c, off64_t *off, int whence) {
    RegCookie *rc = c; if (rc->n->kind == 2) { errno = ESPIPE; return -1; }
    off64_t base = whence == SEEK_SET ? 0 : whence == SEEK_CUR ? (off64_t)rc->pos : (off64_t)rc->n->data.len;
    off64_t np = base + *off; if (np < 0) return -1;
    rc->pos = (size_t)np; *off = np; return 0;
}
static int rc_close(void *c) { RegCookie *rc = c; rc->n->opens--; if (rc->rec) rc->rec->closed = true; free(rc); return 0; }

FILE *__wrap_fopen(const char *path, const char *mode) {
    SimProc *p = sim_cur_proc();
    if (!p) return __real_fopen(path, mode);
    simk_note_syscall("fopen", -1);
    char tmp[512]; const char *rp = resolve(path, tmp, sizeof tmp);
    if (!rp) {
        if (mode[0] != 'r' || strchr(mode, '+')) sim_event("fopen-real-write %s", path);
        return __real_fopen(path, mode);
    }
    FsNode *n = simfs_lookup(rp);
    int ofl = O_RDONLY;
    if (mode[0] == 'r') { if (!n) { errno = ENOENT; return NULL; } ofl = strchr(mode, '+') ? O_RDWR : O_RDONLY; }
    else if (mode[0] == 'w') { if (!n) n = simfs_create(rp, 0); n->data.len = 0; ofl = strchr(mode, '+') ? O_RDWR : O_WRONLY; }
    else if (mode[0] == 'a') { if (!n) n = simfs_create(rp, 0); ofl = O_WRONLY | O_APPEND; }
    else { errno = EINVAL; return NULL; }
    if (n->kind == 1) { errno = ENXIO; return NULL; }
    RegCookie *rc = calloc(1, sizeof *rc);
    rc->p = p; rc->n = n; rc->oflags = ofl; n->opens++;
    cookie_io_functions_t io = { .read = rc_read, .write = rc_write, .seek = rc_seek, .close = rc_close };
    const char *m2 = mode[0] == 'r' ? (strchr(mode, '+') ? "r+" : "r") : mode[0] == 'w' ? (strchr(mode, '+') ? "w+" : "w") : "a";
    FILE *f = fopencookie(rc, m2, io);
    SimOpenFILE *o = calloc(1, sizeof *o); o->f = f; o->next = (SimOpenFILE *)p->files; p->files = (void *)o; rc->rec = o;
    return f;
}
FILE *__wrap_fopen64(const char *path, const char *mode) { return __wrap_fopen(path, mode); }

/* ---------------- external tools: stubbed ---------------- */
Buf sim_system_log;
int sim_system_rc;
int __wrap_system(const char *cmd) {
    simk_note_syscall("system", -1);
    buf_printf(&sim_system_log, "%s\n", cmd ? cmd : "(null)");
    return sim_system_rc;
}
FILE *__wrap_popen(const char *cmd, const char *mode) {
    (void)mode;
    buf_printf(&sim_system_log, "popen: %s\n", cmd);
    return __real_fopen("/dev/null", "r");
}
int __wrap_pclose(FILE *f) { fclose(f); return 0; }
int __wrap_posix_spawn(pid_t *pid, const char *path, const posix_spawn_file_actions_t *fa,
                       const posix_spawnattr_t *at, char *const argv[], char *const envp[]) {
    (void)pid; (void)fa; (void)at; (void)envp;
    buf_printf(&sim_system_log, "spawn: %s", path);
    for (int i = 0; argv && argv[i]; i++) buf_printf(&sim_system_log, " %s", argv[i]);
    buf_printf(&sim_system_log, "\n");
    errno = ENOENT; return ENOENT;
}
int __wrap_posix_spawnp(pid_t *pid, const char *path, const posix_spawn_file_actions_t *fa,
                        const posix_spawnattr_t *at, char *const argv[], char *const envp[]) {
    return __wrap_posix_spawn(pid, path, fa, at, argv, envp);
}
