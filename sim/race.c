/* Happens-before data-race detection inside the simulator (C17: "... no data race reported").
 *
 * A serialising scheduler hides races from ThreadSanitizer's runtime, so the runtime is not used at all.  A second
 * image of the daemon (nano_vmdt) is compiled from the same sources with gcc's -fsanitize=thread instrumentation only:
 * every load and store of repo code calls __tsan_readN/__tsan_writeN, every C11 atomic calls __tsan_atomic*.  Those
 * callbacks are defined here.  Synchronisation is known exactly, because every synchronising call of the daemon goes
 * through the simulated kernel: pthread_create / join, mutex and rwlock operations, atomics.  The detector is the
 * usual vector-clock one (FastTrack shape): a thread has a clock vector, a lock or atomic location carries the vector
 * of its last release, and each 8-byte granule of memory remembers up to four recent accesses (thread, clock, byte
 * mask, read/write, code address).  Two accesses to overlapping bytes by different threads, at least one a write,
 * neither ordered before the other by the vectors, are a race - whether or not this particular interleaving made it
 * visible in the output.  Everything is a function of the schedule the seed decides, so a report replays.
 *
 * What it deliberately does not see (each omission can only hide a race, never invent one):
 *   - accesses inside libc (memcpy, stdio): not instrumented;
 *   - stack memory of any task (thread-private unless a pointer to it is handed over);
 *   - accesses made while a signal handler runs (handlers run on the signalling task in this kernel);
 *   - a granule's older accesses once its four slots are taken by newer ones; granules beyond the table size.
 * Freed heap ranges are forgotten at free() (the allocator seam calls race_forget), so reuse of an address by another
 * thread is not a race.  Task slots are reused by the kernel; a new thread in a slot continues the slot's clock. */
#pragma GCC diagnostic ignored "-Wbuiltin-declaration-mismatch"
#include "nanosim.h"
#include "kernel.h"
#include <stdlib.h>
#include <string.h>
#include <stdint.h>

#define RT_MAXT 512
#define CELL_BITS 21
#define NCELLS (1u << CELL_BITS)

typedef struct { uint64_t pc; uint32_t clk; uint16_t tid; uint8_t mask; uint8_t flags; /* 1 used, 2 write */ } Slot;
typedef struct { uint64_t key; Slot s[4]; uint8_t next; } Cell;
typedef struct SyncVar { uint64_t key; uint32_t *vc; } SyncVar;

bool race_on;                               /* set by the family for runs that use the instrumented image */
int race_in_signal;
static Cell *cells; static uint32_t cells_used;
static uint32_t *vcs[RT_MAXT];              /* vector clock of the thread in task slot i */
static uint32_t last_clk[RT_MAXT];          /* clock the slot's previous occupant ended with */
static int max_tid;
#define NSYNC 4096
static SyncVar syncs[NSYNC];
uint64_t race_accesses, race_sync_ops, race_threads, race_cells_full;
static char *stack_lo = (char *)~(uintptr_t)0, *stack_hi;

typedef struct RaceReport { uint64_t addr; uint64_t pc[2]; int tid[2]; int write[2]; int size; } RaceReport;
#define MAXREP 8
static RaceReport reps[MAXREP]; static int nreps;
int race_count(void) { return nreps; }

void race_reset(void) {
    if (cells) memset(cells, 0, sizeof(Cell) * NCELLS);
    cells_used = 0;
    for (int i = 0; i < RT_MAXT; i++) { free(vcs[i]); vcs[i] = NULL; last_clk[i] = 0; }
    for (int i = 0; i < NSYNC; i++) { free(syncs[i].vc); syncs[i].vc = NULL; syncs[i].key = 0; }
    max_tid = 0; nreps = 0; race_accesses = race_sync_ops = race_threads = race_cells_full = 0;
}
void race_note_stack(void *lo, size_t sz) {
    if ((char *)lo < stack_lo) stack_lo = lo;
    if ((char *)lo + sz > stack_hi) stack_hi = (char *)lo + sz;
}

static uint32_t *vc_of(int tid) {
    if (!vcs[tid]) { vcs[tid] = calloc(RT_MAXT, sizeof(uint32_t)); vcs[tid][tid] = last_clk[tid] + 1; }
    if (tid > max_tid) max_tid = tid;
    return vcs[tid];
}
static void vc_join(uint32_t *dst, const uint32_t *src) { for (int i = 0; i <= max_tid; i++) if (src[i] > dst[i]) dst[i] = src[i]; }

/* a thread starts in task slot `child`; parent < 0: first thread of a process */
void race_thread_start(int parent, int child) {
    if (!race_on || child < 0 || child >= RT_MAXT) return;
    race_threads++;
    if (child > max_tid) max_tid = child;
    uint32_t keep = vcs[child] ? vcs[child][child] : last_clk[child];
    free(vcs[child]); vcs[child] = calloc(RT_MAXT, sizeof(uint32_t));
    if (parent >= 0 && parent < RT_MAXT) { uint32_t *pv = vc_of(parent); vc_join(vcs[child], pv); pv[parent]++; }
    if (vcs[child][child] < keep) vcs[child][child] = keep;
    vcs[child][child]++;
}
void race_thread_end(int tid) {
    if (!race_on || tid < 0 || tid >= RT_MAXT || !vcs[tid]) return;
    last_clk[tid] = vcs[tid][tid];      /* the vector itself stays for a later join */
}
void race_thread_join(int joiner, int joined) {
    if (!race_on || joiner < 0 || joined < 0 || joiner >= RT_MAXT || joined >= RT_MAXT || !vcs[joined]) return;
    vc_join(vc_of(joiner), vcs[joined]); race_sync_ops++;
}
static SyncVar *sync_get(uint64_t key) {
    uint32_t h = (uint32_t)((key * 0x9E3779B97F4A7C15ull) >> 52) % NSYNC;
    for (uint32_t i = 0; i < NSYNC; i++) {
        SyncVar *s = &syncs[(h + i) % NSYNC];
        if (s->key == key) return s;
        if (!s->key) { s->key = key; s->vc = calloc(RT_MAXT, sizeof(uint32_t)); return s; }
    }
    return NULL;
}
static uint64_t proc_key(void) { SimProc *p = sim_cur_proc(); return p ? (uint64_t)(unsigned)p->pid << 48 : 0; }
void race_acquire(int tid, const void *obj) {
    if (!race_on || tid < 0 || tid >= RT_MAXT) return;
    SyncVar *s = sync_get(proc_key() ^ (uint64_t)(uintptr_t)obj); if (!s) return;
    vc_join(vc_of(tid), s->vc); race_sync_ops++;
}
void race_release(int tid, const void *obj) {
    if (!race_on || tid < 0 || tid >= RT_MAXT) return;
    SyncVar *s = sync_get(proc_key() ^ (uint64_t)(uintptr_t)obj); if (!s) return;
    uint32_t *v = vc_of(tid); vc_join(s->vc, v); v[tid]++; race_sync_ops++;
}

NOSAN static Cell *cell_get(uint64_t key, bool create) {
    uint32_t h = (uint32_t)((key * 0x9E3779B97F4A7C15ull) >> (64 - CELL_BITS));
    for (uint32_t i = 0; i < 64; i++) {
        Cell *c = &cells[(h + i) & (NCELLS - 1)];
        if (c->key == key) return c;
        if (!c->key) { if (!create || cells_used > NCELLS / 2) { if (create) race_cells_full++; return NULL; } c->key = key; cells_used++; return c; }
    }
    if (create) race_cells_full++;
    return NULL;
}
/* the allocator seam frees [p, p+n): nothing remembered about it applies to its next owner */
void race_forget(const void *p, size_t n) {
    if (!race_on || !cells || !n) return;
    uint64_t pk = 0;
    /* heap addresses are unique across simulated processes: they are keyed without the pid */
    if (n > (1u << 22)) n = 1u << 22;
    uintptr_t a = (uintptr_t)p & ~(uintptr_t)7, e = (uintptr_t)p + n;
    for (; a < e; a += 8) { Cell *c = cell_get(pk ^ (a >> 3) ^ 0x4000000000000000ull, false); if (c) { memset(c->s, 0, sizeof c->s); c->next = 0; } }
}

extern bool sim_addr_in_image(const void *p);
static void report(uint64_t addr, int size, Slot *old, int tid, bool write, uint64_t pc) {
    for (int i = 0; i < nreps; i++) if ((reps[i].pc[0] == old->pc && reps[i].pc[1] == pc) || (reps[i].pc[0] == pc && reps[i].pc[1] == old->pc)) return;
    if (nreps >= MAXREP) return;
    RaceReport *r = &reps[nreps++];
    r->addr = addr; r->size = size; r->pc[0] = old->pc; r->pc[1] = pc; r->tid[0] = old->tid; r->tid[1] = tid; r->write[0] = !!(old->flags & 2); r->write[1] = write;
    sim_event("race addr=%llx", (unsigned long long)addr);
}
NOSAN static inline void access_granule(uint64_t key, uint64_t addr, uint8_t mask, int size, int tid, uint32_t *vc, bool write, uint64_t pc) {
    Cell *c = cell_get(key, true); if (!c) return;
    int mine = -1, empty = -1;
    for (int i = 0; i < 4; i++) {
        Slot *s = &c->s[i];
        if (!(s->flags & 1)) { if (empty < 0) empty = i; continue; }
        if (s->tid == tid) { if (s->mask == mask && (!!(s->flags & 2)) == write) mine = i; continue; }
        if (!(s->mask & mask)) continue;
        if (!write && !(s->flags & 2)) continue;
        if (vc[s->tid] >= s->clk) continue;            /* ordered before this access */
        report(addr, size, s, tid, write, pc);
    }
    int k = mine >= 0 ? mine : empty >= 0 ? empty : (c->next++ & 3);
    c->s[k] = (Slot){ pc, vc[tid], (uint16_t)tid, mask, (uint8_t)(1 | (write ? 2 : 0)) };
}
extern int sim_task_index(SimTask *t);
extern bool sim_proc_race(SimProc *p);
NOSAN static inline void access_range(const void *p, size_t size, bool write, uint64_t pc) {
    if (!race_on || race_in_signal) return;
    SimTask *t = sim_cur_task(); if (!t) return;
    SimProc *pr = sim_cur_proc(); if (!pr || !sim_proc_race(pr)) return;
    if ((char *)p >= stack_lo && (char *)p < stack_hi) return;
    if (!cells) { cells = calloc(NCELLS, sizeof(Cell)); if (!cells) return; }
    int tid = sim_task_index(t); if (tid < 0 || tid >= RT_MAXT) return;
    uint32_t *vc = vc_of(tid);
    race_accesses++;
    /* statics of an image are swapped per process, so their addresses are qualified by the pid; heap addresses are not */
    uint64_t pk = sim_addr_in_image(p) ? (uint64_t)(unsigned)pr->pid << 48 : 0x4000000000000000ull;
    uintptr_t a = (uintptr_t)p, e = a + size;
    if (size > 4096) e = a + 4096;
    while (a < e) {
        uintptr_t g = a & ~(uintptr_t)7, ge = g + 8 < e ? g + 8 : e;
        uint8_t mask = (uint8_t)(((1u << (ge - a)) - 1) << (a - g));
        access_granule(pk ^ (g >> 3), a, mask, (int)size, tid, vc, write, pc);
        a = ge;
    }
}

/* ---- the instrumentation's entry points ---- */
#define PC ((uint64_t)(uintptr_t)__builtin_return_address(0))
#define RW(n) \
    void __tsan_read##n(void *p) { access_range(p, n, false, PC); } \
    void __tsan_write##n(void *p) { access_range(p, n, true, PC); } \
    void __tsan_unaligned_read##n(void *p) { access_range(p, n, false, PC); } \
    void __tsan_unaligned_write##n(void *p) { access_range(p, n, true, PC); }
RW(1) RW(2) RW(4) RW(8) RW(16)
void __tsan_read_range(void *p, size_t n) { access_range(p, n, false, PC); }
void __tsan_write_range(void *p, size_t n) { access_range(p, n, true, PC); }
void __tsan_init(void) {}
void __tsan_func_entry(void *pc) { (void)pc; }
void __tsan_func_exit(void *x) { (void)x; }
void __tsan_vptr_update(void **a, void *b) { (void)a; (void)b; }
void __tsan_vptr_read(void **a) { (void)a; }

/* C11 atomics: perform the operation, and treat it as acquire+release on the location whatever order was asked for */
static inline int cur_tid(void) { SimTask *t = sim_cur_task(); SimProc *p = sim_cur_proc(); return (race_on && t && p && sim_proc_race(p)) ? sim_task_index(t) : -1; }
#define SYNC_BEFORE(a) int _tid = cur_tid(); if (_tid >= 0) race_acquire(_tid, (const void *)(a))
#define SYNC_AFTER(a) if (_tid >= 0) race_release(_tid, (const void *)(a))
#define ATOMICS(bits, T) \
    T __tsan_atomic##bits##_load(const volatile T *a, int mo) { (void)mo; SYNC_BEFORE(a); T v = __atomic_load_n(a, __ATOMIC_SEQ_CST); SYNC_AFTER(a); return v; } \
    void __tsan_atomic##bits##_store(volatile T *a, T v, int mo) { (void)mo; SYNC_BEFORE(a); __atomic_store_n(a, v, __ATOMIC_SEQ_CST); SYNC_AFTER(a); } \
    T __tsan_atomic##bits##_exchange(volatile T *a, T v, int mo) { (void)mo; SYNC_BEFORE(a); T r = __atomic_exchange_n(a, v, __ATOMIC_SEQ_CST); SYNC_AFTER(a); return r; } \
    T __tsan_atomic##bits##_fetch_add(volatile T *a, T v, int mo) { (void)mo; SYNC_BEFORE(a); T r = __atomic_fetch_add(a, v, __ATOMIC_SEQ_CST); SYNC_AFTER(a); return r; } \
    T __tsan_atomic##bits##_fetch_sub(volatile T *a, T v, int mo) { (void)mo; SYNC_BEFORE(a); T r = __atomic_fetch_sub(a, v, __ATOMIC_SEQ_CST); SYNC_AFTER(a); return r; } \
    T __tsan_atomic##bits##_fetch_and(volatile T *a, T v, int mo) { (void)mo; SYNC_BEFORE(a); T r = __atomic_fetch_and(a, v, __ATOMIC_SEQ_CST); SYNC_AFTER(a); return r; } \
    T __tsan_atomic##bits##_fetch_or(volatile T *a, T v, int mo) { (void)mo; SYNC_BEFORE(a); T r = __atomic_fetch_or(a, v, __ATOMIC_SEQ_CST); SYNC_AFTER(a); return r; } \
    T __tsan_atomic##bits##_fetch_xor(volatile T *a, T v, int mo) { (void)mo; SYNC_BEFORE(a); T r = __atomic_fetch_xor(a, v, __ATOMIC_SEQ_CST); SYNC_AFTER(a); return r; } \
    T __tsan_atomic##bits##_fetch_nand(volatile T *a, T v, int mo) { (void)mo; SYNC_BEFORE(a); T r = __atomic_fetch_nand(a, v, __ATOMIC_SEQ_CST); SYNC_AFTER(a); return r; } \
    int __tsan_atomic##bits##_compare_exchange_strong(volatile T *a, T *c, T v, int mo, int fmo) { (void)mo; (void)fmo; SYNC_BEFORE(a); int r = __atomic_compare_exchange_n(a, c, v, 0, __ATOMIC_SEQ_CST, __ATOMIC_SEQ_CST); SYNC_AFTER(a); return r; } \
    int __tsan_atomic##bits##_compare_exchange_weak(volatile T *a, T *c, T v, int mo, int fmo) { (void)mo; (void)fmo; SYNC_BEFORE(a); int r = __atomic_compare_exchange_n(a, c, v, 0, __ATOMIC_SEQ_CST, __ATOMIC_SEQ_CST); SYNC_AFTER(a); return r; } \
    T __tsan_atomic##bits##_compare_exchange_val(volatile T *a, T c, T v, int mo, int fmo) { (void)mo; (void)fmo; SYNC_BEFORE(a); __atomic_compare_exchange_n(a, &c, v, 0, __ATOMIC_SEQ_CST, __ATOMIC_SEQ_CST); SYNC_AFTER(a); return c; }
ATOMICS(8, uint8_t) ATOMICS(16, uint16_t) ATOMICS(32, uint32_t) ATOMICS(64, uint64_t)
void __tsan_atomic_thread_fence(int mo) { (void)mo; static char fence_obj; SYNC_BEFORE(&fence_obj); __atomic_thread_fence(__ATOMIC_SEQ_CST); SYNC_AFTER(&fence_obj); }
void __tsan_atomic_signal_fence(int mo) { (void)mo; }

/* ---- reporting ---- */
FILE *__real_popen(const char *, const char *); int __real_pclose(FILE *); pid_t __real_getpid(void);
static void symbolise(uint64_t pc, char *fn, size_t fsz, char *file, size_t lsz) {
    snprintf(fn, fsz, "?"); snprintf(file, lsz, "?");
    char cmd[160]; snprintf(cmd, sizeof cmd, "addr2line -f -e /proc/%d/exe 0x%llx 2>/dev/null", (int)__real_getpid(), (unsigned long long)(pc - 1));
    FILE *f = __real_popen(cmd, "r"); if (!f) return;
    char l1[256] = "", l2[512] = "";
    if (fgets(l1, sizeof l1, f) && fgets(l2, sizeof l2, f)) {
        l1[strcspn(l1, "\n")] = 0; l2[strcspn(l2, "\n")] = 0;
        char *c = strrchr(l2, ':'); if (c) *c = 0;
        char *b = strrchr(l2, '/');
        snprintf(fn, fsz, "%s", l1); snprintf(file, lsz, "%s", b ? b + 1 : l2);
    }
    __real_pclose(f);
}
static void data_symbol(uint64_t addr, char *out, size_t osz) {
    out[0] = 0;
    char cmd[200]; snprintf(cmd, sizeof cmd, "nm -n /proc/%d/exe 2>/dev/null | awk '$2 ~ /[bBdD]/'", (int)__real_getpid());
    FILE *f = __real_popen(cmd, "r"); if (!f) return;
    char line[512], best[256] = ""; uint64_t besta = 0;
    while (fgets(line, sizeof line, f)) {
        unsigned long long a; char t; char name[256];
        if (sscanf(line, "%llx %c %255s", &a, &t, name) != 3) continue;
        if (a <= addr && a >= besta) { besta = a; snprintf(best, sizeof best, "%s", name); }
        if (a > addr) break;
    }
    __real_pclose(f);
    if (best[0] && addr - besta < 65536) snprintf(out, osz, "%s+%llu", best, (unsigned long long)(addr - besta));
}
/* report i: signature part "fnA@fileA~fnB@fileB" (ordered, so that the two discovery orders give one signature) and a detail line */
bool race_describe(int i, char *sig, size_t ssz, Buf *detail) {
    if (i < 0 || i >= nreps) return false;
    RaceReport *r = &reps[i];
    char fn[2][128], file[2][128];
    for (int k = 0; k < 2; k++) symbolise(r->pc[k], fn[k], sizeof fn[k], file[k], sizeof file[k]);
    char a[280], b[280]; snprintf(a, sizeof a, "%s@%s", fn[0], file[0]); snprintf(b, sizeof b, "%s@%s", fn[1], file[1]);
    if (strcmp(a, b) > 0) { char t[280]; strcpy(t, a); strcpy(a, b); strcpy(b, t); }
    snprintf(sig, ssz, "%s~%s", a, b);
    char ds[300]; data_symbol(r->addr, ds, sizeof ds);
    buf_printf(detail, "data race on %d byte(s) at 0x%llx%s%s%s: %s by daemon thread %d in %s (%s) and %s by thread %d in %s (%s), not ordered by any create/join, mutex or atomic operation\n",
               r->size, (unsigned long long)r->addr, ds[0] ? " (" : "", ds, ds[0] ? ")" : "",
               r->write[0] ? "write" : "read", r->tid[0], fn[0], file[0], r->write[1] ? "write" : "read", r->tid[1], fn[1], file[1]);
    return true;
}
