/* nanosim kernel -- see kernel.h and DESIGN.md section 2.
 *
 * Everything here runs on one OS thread.  Simulated threads are ucontext
 * coroutines; the scheduler below decides every switch from the seeded PRNG.
 * libc entry points used by the program images are redirected here at link
 * time (-Wl,--wrap=...).  The harness itself is wrapped too, so every wrapper
 * starts with "if (!cur) return __real_X(...)".
 */
#include "kernel.h"
#include <stdlib.h>
#include <string.h>
#include <stdarg.h>
#include <errno.h>
#include <ucontext.h>
#include <setjmp.h>
#include <unistd.h>
#include <poll.h>
#include <signal.h>
#include <pthread.h>
#include <fcntl.h>
#include <time.h>
#include <sys/mman.h>
#include <sys/socket.h>
#include <sys/un.h>
#include <sys/wait.h>
#include <sys/file.h>
#include <sys/stat.h>
#include <sys/time.h>
#include <sanitizer/common_interface_defs.h>
#include <sanitizer/asan_interface.h>

SimKnobs K;
int sim_stack_junk = -1;
size_t sim_stack_shift;   /* bytes (multiple of 16) cut off the top of every new task stack: stack-address diversity, like ASLR */
bool sim_time_capped;
SimStats S;
SimHooks sim_hooks;
bool sim_trace;

/* ======================================================================
 * buffers
 * ====================================================================== */
void buf_put(Buf *b, const void *p, size_t n) {
    if (n == 0) return;
    if (b->len + n > b->cap) {
        b->cap = (b->len + n) * 2 + 64;
        b->d = realloc(b->d, b->cap);
    }
    memcpy(b->d + b->len, p, n);
    b->len += n;
}
size_t buf_get(Buf *b, void *p, size_t n) {
    if (n > b->len) n = b->len;
    if (n == 0) return 0;
    memcpy(p, b->d, n);
    memmove(b->d, b->d + n, b->len - n);
    b->len -= n;
    return n;
}
void buf_free(Buf *b) { free(b->d); b->d = NULL; b->len = b->cap = 0; }
void buf_printf(Buf *b, const char *fmt, ...) {
    char tmp[2048];
    va_list ap; va_start(ap, fmt);
    int n = vsnprintf(tmp, sizeof tmp, fmt, ap);
    va_end(ap);
    if (n < 0) return;
    if ((size_t)n < sizeof tmp) { buf_put(b, tmp, (size_t)n); return; }
    char *big = malloc((size_t)n + 1);
    va_start(ap, fmt); vsnprintf(big, (size_t)n + 1, fmt, ap); va_end(ap);
    buf_put(b, big, (size_t)n); free(big);
}

/* ======================================================================
 * PRNG: SplitMix64.  One stream per run, seeded from the run seed.
 * ====================================================================== */
static uint64_t rng_s;
uint64_t sim_choice_count[CH_NKINDS];
void sim_seed(uint64_t seed) { rng_s = seed * 0x2545F4914F6CDD1Dull + 0x9E3779B97F4A7C15ull; }
uint64_t sim_rnd(void) {
    uint64_t z = (rng_s += 0x9E3779B97F4A7C15ull);
    z = (z ^ (z >> 30)) * 0xBF58476D1CE4E5B9ull;
    z = (z ^ (z >> 27)) * 0x94D049BB133111EBull;
    return z ^ (z >> 31);
}
uint32_t sim_rndn(uint32_t n) { return n > 1 ? (uint32_t)(sim_rnd() % n) : 0; }
uint32_t sim_choose(int kind, uint32_t n) {
    sim_choice_count[kind]++;
    return sim_rndn(n);
}
static bool chance_pm(int kind, int pm) { return pm > 0 && (int)sim_choose(kind, 1000) < pm; }

/* ======================================================================
 * event log hash (determinism check) and tracing
 * ====================================================================== */
static uint64_t ev_hash = 1469598103934665603ull, sched_hash = 1469598103934665603ull;
static inline uint64_t fnv(uint64_t h, const void *p, size_t n) {
    const uint8_t *d = p;
    for (size_t i = 0; i < n; i++) { h ^= d[i]; h *= 1099511628211ull; }
    return h;
}
static int trace_fd = 2;
void sim_tracef(const char *fmt, ...) {
    if (!sim_trace) return;
    char tmp[1024];
    va_list ap; va_start(ap, fmt);
    int n = vsnprintf(tmp, sizeof tmp, fmt, ap);
    va_end(ap);
    if (n > (int)sizeof tmp - 1) n = sizeof tmp - 1;
    if (n > 0) { ssize_t r = __real_write(trace_fd, tmp, (size_t)n); (void)r; }
}
void sim_event(const char *fmt, ...) {
    char tmp[512];
    va_list ap; va_start(ap, fmt);
    int n = vsnprintf(tmp, sizeof tmp, fmt, ap);
    va_end(ap);
    if (n > (int)sizeof tmp - 1) n = sizeof tmp - 1;
    if (n <= 0) return;
    ev_hash = fnv(ev_hash, tmp, (size_t)n);
    if (sim_trace) { ssize_t r = __real_write(trace_fd, tmp, (size_t)n); r = __real_write(trace_fd, "\n", 1); (void)r; }
}
uint64_t sim_event_hash(void) { return ev_hash; }
uint64_t sim_sched_hash(void) { return sched_hash; }

/* race.c */
extern int race_in_signal;
void race_note_stack(void *lo, size_t sz); void race_thread_start(int parent, int child); void race_thread_end(int tid);
void race_thread_join(int joiner, int joined); void race_acquire(int tid, const void *obj); void race_release(int tid, const void *obj);
bool sim_proc_race(SimProc *p);
/* ======================================================================
 * images
 * ====================================================================== */
#define DECL_IMG(n) \
    extern char __start_imgdata_##n[], __stop_imgdata_##n[], __start_imgbss_##n[], __stop_imgbss_##n[]; \
    extern int nano_##n##_main(int, char **);
DECL_IMG(vm) DECL_IMG(vmd) DECL_IMG(vmdt) DECL_IMG(cop) DECL_IMG(virt)
extern char __start_imgdata_nanoc[], __stop_imgdata_nanoc[], __start_imgbss_nanoc[], __stop_imgbss_nanoc[];
extern int nanoc_main(int, char **);

static SimImage images[] = {
    { "nano_vm",   nano_vm_main,   __start_imgdata_vm,   __stop_imgdata_vm,   __start_imgbss_vm,   __stop_imgbss_vm },
    { "nano_vmd",  nano_vmd_main,  __start_imgdata_vmd,  __stop_imgdata_vmd,  __start_imgbss_vmd,  __stop_imgbss_vmd },
    { "nano_vmd",  nano_vmdt_main, __start_imgdata_vmdt, __stop_imgdata_vmdt, __start_imgbss_vmdt, __stop_imgbss_vmdt, .race = true },
    { "nano_cop",  nano_cop_main,  __start_imgdata_cop,  __stop_imgdata_cop,  __start_imgbss_cop,  __stop_imgbss_cop },
    { "nano_virt", nano_virt_main, __start_imgdata_virt, __stop_imgdata_virt, __start_imgbss_virt, __stop_imgbss_virt },
    { "nanoc",     nanoc_main,     __start_imgdata_nanoc, __stop_imgdata_nanoc, __start_imgbss_nanoc, __stop_imgbss_nanoc },
};
#define NIMAGES ((int)(sizeof images / sizeof images[0]))

void sim_images_init(void) {
    for (int i = 0; i < NIMAGES; i++) {
        SimImage *im = &images[i];
        size_t nd = (size_t)(im->d1 - im->d0), nb = (size_t)(im->b1 - im->b0);
        im->size = nd + nb;
        im->pristine = malloc(im->size);
        memcpy(im->pristine, im->d0, nd);
        memcpy(im->pristine + nd, im->b0, nb);
        im->owner = NULL;
    }
}
/* race detector support (race.c) */
bool sim_addr_in_image(const void *q) {
    const char *p = q;
    for (int i = 0; i < NIMAGES; i++) if ((p >= images[i].d0 && p < images[i].d1) || (p >= images[i].b0 && p < images[i].b1)) return true;
    return false;
}
bool sim_race_daemon;
SimImage *sim_image(const char *name) {
    for (int i = 0; i < NIMAGES; i++) if (strcmp(images[i].name, name) == 0) {
        if (strcmp(name, "nano_vmd") == 0 && images[i].race != sim_race_daemon) continue;
        return &images[i];
    }
    return NULL;
}
bool sim_proc_race(SimProc *p) { return p && !p->share && p->img && p->img->race; }
static void img_save(SimImage *im, char *dst) {
    size_t nd = (size_t)(im->d1 - im->d0), nb = (size_t)(im->b1 - im->b0);
    memcpy(dst, im->d0, nd); memcpy(dst + nd, im->b0, nb);
}
static void img_load(SimImage *im, const char *src) {
    size_t nd = (size_t)(im->d1 - im->d0), nb = (size_t)(im->b1 - im->b0);
    memcpy(im->d0, src, nd); memcpy(im->b0, src + nd, nb);
}
static SimProc *img_identity(SimProc *p) { while (p->share) p = p->share; return p; }
/* make p's private statics the live ones */
static void img_activate(SimProc *p) {
    p = img_identity(p);
    SimImage *im = p->img;
    if (!im || im->owner == p) return;
    if (im->owner) img_save(im, im->owner->imgdata);
    img_load(im, p->imgdata);
    im->owner = p;
    S.img_swaps++;
}

/* ======================================================================
 * tasks and processes
 * ====================================================================== */
enum { T_FREE = 0, T_RUNNABLE, T_BLOCKED, T_DONE };
struct SimTask {
    ucontext_t ctx; void *stack; size_t stack_sz;
    SimProc *p; int state, id;
    bool (*ready)(struct SimTask *); void *wait_obj; void *wait_obj2;
    uint64_t wake_at; bool timed;
    void *(*fn)(void *); void *arg;
    sim_main_fn mainfn; int argc; char **argv;
    void *fake; int saved_errno;
    int prio; const char *ykind;
    uint64_t start_at;
    bool nosignal;
    char *scrib_low;   /* lowest stack pointer seen since the last scribble */
};
#define MAXT 512
#define MAXP 512
static SimTask tasks[MAXT];
static SimProc procs[MAXP];
static int nprocs;
static SimTask *cur;
static ucontext_t sched_ctx;
static const void *sched_bottom; static size_t sched_size; static void *sched_fake;
static uint64_t now_us;
static long preempt_countdown;
static int next_pid;
static uint64_t pct_change[8]; static int pct_n;

int sim_task_index(SimTask *t) { return t ? t->id : -1; }
SimProc *sim_cur_proc(void) { return cur ? cur->p : NULL; }
SimTask *sim_cur_task(void) { return cur; }
uint64_t sim_now_us(void) { return now_us; }
int sim_nprocs(void) { return nprocs; }
SimProc *sim_proc_at(int i) { return &procs[i]; }
SimProc *sim_find_pid(int pid) {
    for (int i = 0; i < nprocs; i++) if (procs[i].pid == pid && !procs[i].reaped) return &procs[i];
    return NULL;
}

/* shared page telling the supervising parent who was running when we crashed */
typedef struct SimShared { char cur_role[48]; char cur_image[16]; int cur_pid; uint64_t steps; } SimShared;
SimShared *sim_shared;

static void stdio_activate(SimProc *p);

NOSAN static void yield_to_sched(void) {
    SimTask *t = cur;
    t->saved_errno = errno;
    S.switches++;
    __sanitizer_start_switch_fiber(&t->fake, sched_bottom, sched_size);
    swapcontext(&t->ctx, &sched_ctx);
    __sanitizer_finish_switch_fiber(t->fake, &sched_bottom, &sched_size);
    errno = t->saved_errno;
}
static void block_on(bool (*ready)(SimTask *), void *obj, const char *why) {
    cur->ready = ready; cur->wait_obj = obj; cur->state = T_BLOCKED; cur->ykind = why;
    yield_to_sched();
    cur->ready = NULL;
}
static void sim_yield(const char *why) {
    cur->state = T_RUNNABLE; cur->ykind = why;
    yield_to_sched();
}
void sim_yield_point(void) { if (cur) sim_yield("y"); }
NOSAN static void task_exit_to_sched(void) {
    cur->state = T_DONE;
    __sanitizer_start_switch_fiber(NULL, sched_bottom, sched_size);
    setcontext(&sched_ctx);
    abort();
}

static void proc_exit(SimProc *p, int status, bool flush);

/* ---- streams created with fopencookie (the daemon's socket-backed output streams, SimFS files) ----
 * fork() duplicates a process's stdio buffers; a child that then calls exit() (not _exit()) flushes its copies, so bytes the
 * parent has buffered reach their destination twice.  The emulated fork shares memory with its parent, so that effect is
 * reproduced explicitly: exit() in a not-yet-exec'ed child emits the pending output of every cookie stream of the parent
 * through the stream's own write function and leaves the parent's buffer as it is. */
typedef struct CookieStream { FILE *f; void *cookie; cookie_write_function_t *wr; SimProc *owner; } CookieStream;
static CookieStream cstreams[512]; static int ncstreams;
FILE *__real_fopencookie(void *, const char *, cookie_io_functions_t);
FILE *__wrap_fopencookie(void *cookie, const char *mode, cookie_io_functions_t io) {
    FILE *f = __real_fopencookie(cookie, mode, io);
    if (f && cur && io.write) {
        int k = -1; for (int i = 0; i < ncstreams; i++) if (!cstreams[i].f) { k = i; break; }
        if (k < 0 && ncstreams < 512) k = ncstreams++;
        if (k >= 0) cstreams[k] = (CookieStream){ f, cookie, io.write, img_identity(cur->p) };
    }
    return f;
}
int __real_fclose(FILE *);
int __wrap_fclose(FILE *f) {
    for (int i = 0; i < ncstreams; i++) if (cstreams[i].f == f) cstreams[i].f = NULL;
    return __real_fclose(f);
}
static void child_exit_flushes_copies(SimProc *child) {
    SimProc *par = img_identity(child);
    for (int i = 0; i < ncstreams; i++) {
        CookieStream *c = &cstreams[i];
        if (!c->f || c->owner != par) continue;
        size_t pend = (size_t)(c->f->_IO_write_ptr - c->f->_IO_write_base);
        if (c->f->_IO_write_base && pend > 0 && pend < (1u << 24)) { S.fork_dup_flushes++; c->wr(c->cookie, c->f->_IO_write_base, pend); }
    }
}

static void task_trampoline(void) {
    __sanitizer_finish_switch_fiber(NULL, &sched_bottom, &sched_size);
    SimTask *t = cur;
    if (t->mainfn) {
        int rc = t->mainfn(t->argc, t->argv);
        proc_exit(cur->p, (rc & 0xff) << 8, true);
    } else {
        t->fn(t->arg);
        race_thread_end(t->id);
        /* a harness peer task ending == its process exits normally */
        if (!cur->p->img) proc_exit(cur->p, 0, true);
    }
    task_exit_to_sched();
}

static SimTask *task_new(SimProc *p) {
    for (int i = 0; i < MAXT; i++) if (tasks[i].state == T_FREE) {
        SimTask *t = &tasks[i];
        memset(t, 0, sizeof *t);
        t->p = p; t->state = T_RUNNABLE; t->id = i;
        t->stack_sz = 8u << 20;
        char *m = mmap(NULL, t->stack_sz + 4096, PROT_READ | PROT_WRITE,
                       MAP_PRIVATE | MAP_ANONYMOUS | MAP_NORESERVE, -1, 0);
        if (m == MAP_FAILED) abort();
        mprotect(m, 4096, PROT_NONE);
        t->stack = m + 4096;
        if (K.stack_mode > 0) sim_stack_junk = sim_stack_scribble = K.stack_mode - 1;
        /* the address range may have held the stack of a task that died mid-call: its frames' shadow poison is stale */
        __asan_unpoison_memory_region((char *)t->stack, t->stack_sz);
        if (sim_stack_junk >= 0) {   /* fresh stacks are zero pages: make reads of uninitialised locals visible */
            size_t fill = 2u << 20;
            memset((char *)t->stack + t->stack_sz - fill, sim_stack_junk & 0xff, fill);
        }
        getcontext(&t->ctx);
        race_note_stack(t->stack, t->stack_sz); race_thread_start(-1, t->id);
        t->ctx.uc_stack.ss_sp = t->stack; t->ctx.uc_stack.ss_size = t->stack_sz - (sim_stack_shift & ~(size_t)15); t->ctx.uc_link = NULL;
        makecontext(&t->ctx, task_trampoline, 0);
        t->prio = (int)sim_choose(CH_SCHED, 1000000) + 1000;
        return t;
    }
    fprintf(stderr, "nanosim: out of task slots\n");
    abort();
}

static SimFile *file_new(int kind);
static void file_unref(SimFile *f);

static SimProc *proc_new(const char *role, SimProc *parent) {
    SimProc *p = NULL;
    for (int i = 0; i < nprocs && !p; i++) if (procs[i].reusable) p = &procs[i];
    if (!p) {
        if (nprocs >= MAXP) { fprintf(stderr, "nanosim: out of process slots\n"); abort(); }
        p = &procs[nprocs++];
    }
    memset(p, 0, sizeof *p);
    p->pid = next_pid++;
    p->ppid = parent ? parent->pid : 1;
    p->role = role;
    snprintf(p->name, sizeof p->name, "%s", role);
    p->alive = true;
    strcpy(p->cwd, "/sim/cwd");
    return p;
}

/* ---------------- per-process stdio ---------------- */
static ssize_t fd_write_from_stdio(SimProc *p, int fd, const char *buf, size_t n);
typedef struct StdCookie { SimProc *p; int fd; } StdCookie;
static ssize_t std_cookie_write(void *c, const char *buf, size_t n) {
    StdCookie *sc = c;
    return fd_write_from_stdio(sc->p, sc->fd, buf, n);
}
static int std_cookie_close(void *c) { free(c); return 0; }
static FILE *std_stream(SimProc *p, int fd) {
    StdCookie *sc = malloc(sizeof *sc);
    sc->p = p; sc->fd = fd;
    cookie_io_functions_t io = { .read = NULL, .write = std_cookie_write, .seek = NULL, .close = std_cookie_close };
    FILE *f = fopencookie(sc, "w", io);
    if (fd == 2) setvbuf(f, NULL, _IONBF, 0);
    return f;
}
static FILE *real_stdout, *real_stderr;
static void stdio_activate(SimProc *p) {
    if (!p->fout) { p->fout = std_stream(p, 1); p->ferr = std_stream(p, 2); }
    stdout = p->fout; stderr = p->ferr;
}
static void stdio_deactivate(void) { stdout = real_stdout; stderr = real_stderr; }

/* ---------------- SimFS-backed FILE* bookkeeping ---------------- */
typedef struct SimOpenFILE { FILE *f; struct SimOpenFILE *next; bool closed; } SimOpenFILE;

/* ======================================================================
 * process exit
 * ====================================================================== */
static void proc_close_all(SimProc *p) {
    for (int i = 0; i < SIM_MAXFD; i++) if (p->fds[i]) { SimFile *f = p->fds[i]; p->fds[i] = NULL; file_unref(f); }
}
static void vfork_resume_parent(SimProc *ch, int rv);

static void proc_exit(SimProc *p, int status, bool flush) {
    if (!p->alive) return;
    if (p->in_vfork_child) {
        if (flush) child_exit_flushes_copies(p);
        /* child of an emulated vfork dies before exec: give the stack back to the parent */
        p->alive = false; p->zombie = true; p->status = status; p->zombie_at = now_us;
        proc_close_all(p);
        sim_event("exit pid=%d role=%s status=0x%x (vfork child)", p->pid, p->role, status);
        if (sim_hooks.on_exit) sim_hooks.on_exit(p);
        vfork_resume_parent(p, p->pid);
    }
    if (flush) {
        if (p->fout) { fflush(p->fout); fflush(p->ferr); }
        for (SimOpenFILE *o = p->files; o; o = o->next) if (!o->closed) fflush(o->f);
    }
    p->alive = false; p->zombie = true; p->status = status;
    uint32_t d = K.zombie_delay_us > 0 ? sim_choose(CH_DELAY, (uint32_t)K.zombie_delay_us + 1) : 0;
    if (d) S.zombie_delays++;
    p->zombie_at = now_us + d;
    proc_close_all(p);
    for (int i = 0; i < MAXT; i++)
        if (tasks[i].state != T_FREE && tasks[i].p == p && &tasks[i] != cur) tasks[i].state = T_DONE;
    if (p->img && p->img->owner == p) p->img->owner = NULL;
    sim_event("exit pid=%d role=%s status=0x%x t=%llu", p->pid, p->role, status, (unsigned long long)now_us);
    if (sim_hooks.on_exit) sim_hooks.on_exit(p);
    if (cur && cur->p == p) task_exit_to_sched();
}
static void kill_self(int sig) {
    sim_event("signal pid=%d role=%s sig=%d", cur->p->pid, cur->p->role, sig);
    proc_exit(cur->p, sig, false);
}
void sim_kill_proc(SimProc *p, int sig) {
    if (!p->alive) return;
    S.kills++;
    proc_exit(p, sig, false);
}

/* ======================================================================
 * scheduler
 * ====================================================================== */
static void pct_init(void) {
    pct_n = K.sched_policy == 1 ? K.pct_depth : 0;
    for (int i = 0; i < pct_n; i++) pct_change[i] = 1 + sim_choose(CH_SCHED, 3000);
}

char sim_last_runnable[512]; void *sim_last_runnable_task[16]; SimProc *sim_last_runnable_proc[16]; int sim_last_runnable_n;
static void *cands_task(SimTask *t) { return t; }
int sim_run(void) {
    getcontext(&sched_ctx);
    pct_init();
    int rc = 0;
    for (;;) {
        SimTask *cand[MAXT]; int n = 0; uint64_t next_wake = UINT64_MAX;
        for (int i = 0; i < MAXT; i++) {
            SimTask *t = &tasks[i];
            if (t->state == T_DONE) { munmap((char *)t->stack - 4096, t->stack_sz + 4096); t->state = T_FREE; continue; }
            if (t->state == T_FREE) continue;
            if (t->start_at > now_us) { if (t->start_at < next_wake) next_wake = t->start_at; continue; }
            if (t->state == T_BLOCKED) {
                if (t->ready && t->ready(t)) t->state = T_RUNNABLE;
                else if (t->timed && t->wake_at <= now_us) t->state = T_RUNNABLE;
                else if (t->timed && t->wake_at < next_wake) next_wake = t->wake_at;
            }
            if (t->state == T_RUNNABLE) cand[n++] = t;
        }
        if (n == 0) {
            if (next_wake != UINT64_MAX) {
                if (K.max_sim_us && next_wake > K.max_sim_us) { rc = 0; sim_time_capped = true; break; }   /* nothing but far-future timers left */
                now_us = next_wake; continue;
            }
            rc = 0; break;
        }
        if (++S.steps > K.max_steps) {
            /* who could still run: tells a livelock (who spins on what) from a workload that is merely too long */
            sim_last_runnable[0] = 0; sim_last_runnable_n = 0;
            for (int i = 0; i < n && i < 16; i++) { sim_last_runnable_task[i] = cands_task(cand[i]); sim_last_runnable_proc[i] = cand[i]->p; sim_last_runnable_n++; }
            for (int i = 0, w = 0; i < n && w < 400; i++) w += snprintf(sim_last_runnable + w, sizeof sim_last_runnable - (size_t)w, "%s(pid %d task %d, last yield '%s') ", cand[i]->p->role, cand[i]->p->pid, cand[i]->id, cand[i]->ykind ? cand[i]->ykind : "?");
            rc = 1; break;
        }
        if (K.max_blocks && S.blocks > K.max_blocks) { rc = 2; break; }
        now_us += 1;
        SimTask *t;
        if (K.sched_policy == 1) {
            t = cand[0];
            for (int i = 1; i < n; i++) if (cand[i]->prio > t->prio) t = cand[i];
            for (int i = 0; i < pct_n; i++) if (pct_change[i] == S.steps) t->prio = pct_n - i;  /* lowest band */
        } else {
            t = cand[sim_choose(CH_SCHED, (uint32_t)n)];
        }
        { uint32_t key[2] = { (uint32_t)t->id, t->ykind ? (uint32_t)(uintptr_t)t->ykind[0] : 0 };
          sched_hash = fnv(sched_hash, key, sizeof key); }
        img_activate(t->p);
        stdio_activate(img_identity(t->p));
        if (sim_shared) {
            memcpy(sim_shared->cur_role, t->p->role, strnlen(t->p->role, 47) + 1);
            sim_shared->cur_pid = t->p->pid; sim_shared->steps = S.steps;
        }
        cur = t;
        if (K.preempt_mean) preempt_countdown = 1 + (long)sim_choose(CH_PREEMPT, 2u * (uint32_t)K.preempt_mean);
        else preempt_countdown = 1L << 40;
        __sanitizer_start_switch_fiber(&sched_fake, t->stack, t->stack_sz);
        swapcontext(&sched_ctx, &t->ctx);
        __sanitizer_finish_switch_fiber(sched_fake, NULL, NULL);
        cur = NULL;
        stdio_deactivate();
    }
    if (sim_shared) strcpy(sim_shared->cur_role, "-");
    return rc;
}

/* basic-block callback of the instrumented images */
int sim_stack_scribble = -1;   /* -1 off, else junk byte written over the dead stack below the running frame */
/* The callback the images call is the assembly stub below: it runs this function and then, when stack scribbling is on,
 * overwrites its own dead frame area and the slot of its return address, so that nothing deterministic is left right
 * below the caller's stack pointer (that is exactly where the next callee puts its locals). */
uint64_t sim_scribble_pat; int sim_scribble_on;
NOSAN void sim_trace_pc_c(void) {
    if (!cur) return;
    S.blocks++;
    sim_scribble_on = sim_stack_scribble >= 0; sim_scribble_pat = 0x0101010101010101ull * (uint64_t)(sim_stack_scribble & 0xff);
    if (sim_stack_scribble >= 0) {
        /* memory below the stack pointer (past the 128-byte red zone) is dead by the ABI: overwrite it, so that a local
         * read before it is written yields a byte that differs between configurations instead of the stable residue
         * of earlier calls */
        char *sp; __asm__ volatile("mov %%rsp, %0" : "=r"(sp));
        char *lo_limit = (char *)cur->stack + 4096;
        if (cur->scrib_low == NULL || sp < cur->scrib_low) cur->scrib_low = sp;          /* going deeper */
        else if (sp > cur->scrib_low + 512) {                                              /* came back up: what the returned calls used is dead */
            uint64_t pat = 0x0101010101010101ull * (uint64_t)(sim_stack_scribble & 0xff);
            volatile uint64_t *q = (volatile uint64_t *)(((uintptr_t)sp - 16) & ~(uintptr_t)7);   /* this callback is not a leaf: it owns no red zone */
            char *stop = cur->scrib_low - 1024; if (stop < lo_limit) stop = lo_limit;
            while ((char *)(q - 1) > stop) *--q = pat;
            cur->scrib_low = sp;
        }
    }
    if (K.max_blocks && S.blocks > K.max_blocks && (S.blocks & 1023) == 0) { sim_yield("f"); return; }
    if (--preempt_countdown > 0) return;
    preempt_countdown = 1L << 40;
    if (!K.preempt_mean) return;
    S.preempts++;
    sim_yield("p");
    /* countdown is re-armed by the scheduler when we are resumed */
}

__asm__(".text\n.globl __sanitizer_cov_trace_pc\n.type __sanitizer_cov_trace_pc,@function\n__sanitizer_cov_trace_pc:\n"
        " sub $8,%rsp\n call sim_trace_pc_c\n add $8,%rsp\n"
        " movl sim_scribble_on(%rip),%eax\n test %eax,%eax\n jz 2f\n"
        " movq sim_scribble_pat(%rip),%rax\n lea -320(%rsp),%rdx\n"
        "1: movq %rax,(%rdx)\n add $8,%rdx\n cmp %rsp,%rdx\n jb 1b\n"
        " pop %rcx\n movq %rax,-8(%rsp)\n jmp *%rcx\n"
        "2: ret\n");

/* ======================================================================
 * spawn
 * ====================================================================== */
static SimFile *cap_file(Buf *cap) {
    SimFile *f = file_new(cap ? F_CAPTURE : F_NULL);
    f->cap = cap;
    return f;
}
static void proc_set_image(SimProc *p, SimImage *im) {
    p->img = im; p->share = NULL;
    free(p->imgdata);
    p->imgdata = malloc(im->size);
    memcpy(p->imgdata, im->pristine, im->size);
}
SimProc *sim_spawn(const char *role, const char *image, int argc, char **argv,
                   Buf *out_cap, Buf *err_cap, uint64_t start_at_us) {
    SimImage *im = sim_image(image);
    if (!im) { fprintf(stderr, "nanosim: no image %s\n", image); abort(); }
    SimProc *p = proc_new(role, NULL);
    snprintf(p->name, sizeof p->name, "%s", image);
    proc_set_image(p, im);
    p->fds[0] = cap_file(NULL); p->fds[0]->refs = 1;
    p->fds[1] = cap_file(out_cap); p->fds[1]->refs = 1;
    p->fds[2] = cap_file(err_cap); p->fds[2]->refs = 1;
    SimTask *t = task_new(p);
    t->mainfn = im->entry; t->argc = argc; t->argv = argv; t->start_at = start_at_us;
    sim_event("spawn pid=%d role=%s image=%s at=%llu", p->pid, role, image, (unsigned long long)start_at_us);
    return p;
}
SimProc *sim_spawn_fn(const char *role, void *(*fn)(void *), void *arg, uint64_t start_at_us) {
    SimProc *p = proc_new(role, NULL);
    p->fds[0] = cap_file(NULL); p->fds[0]->refs = 1;
    p->fds[1] = cap_file(NULL); p->fds[1]->refs = 1;
    p->fds[2] = cap_file(NULL); p->fds[2]->refs = 1;
    p->sigpipe_ign = true;   /* harness peers observe EPIPE instead of dying */
    SimTask *t = task_new(p);
    t->fn = fn; t->arg = arg; t->start_at = start_at_us;
    sim_event("spawn pid=%d role=%s fn at=%llu", p->pid, role, (unsigned long long)start_at_us);
    return p;
}
void sim_env_set(SimProc *p, const char *kv) {
    p->env = realloc(p->env, sizeof(char *) * (size_t)(p->nenv + 1));
    p->env[p->nenv++] = strdup(kv);
}

static int file_ids;
void sim_reset(void) {
    memset(tasks, 0, sizeof tasks); memset(procs, 0, sizeof procs); nprocs = 0; cur = NULL;
    now_us = 0; next_pid = 1000; memset(&S, 0, sizeof S); memset(sim_choice_count, 0, sizeof sim_choice_count);
    ev_hash = sched_hash = 1469598103934665603ull; file_ids = 0;
    real_stdout = stdout; real_stderr = stderr;
    simfs_reset();
    memset(&sim_hooks, 0, sizeof sim_hooks);
}

/* ======================================================================
 * files
 * ====================================================================== */
static SimFile *file_new(int kind) {
    SimFile *f = calloc(1, sizeof *f);
    f->kind = kind; f->id = ++file_ids;
    return f;
}
static int fd_alloc_from(SimProc *p, SimFile *f, int lo) {
    for (int i = lo; i < SIM_MAXFD; i++) if (!p->fds[i]) { p->fds[i] = f; f->refs++; return i; }
    errno = EMFILE; return -1;
}
static int fd_alloc(SimProc *p, SimFile *f) { return fd_alloc_from(p, f, 0); }
static SimFile *fd_get(int fd) {
    if (fd < 0 || fd >= SIM_MAXFD) return NULL;
    return cur->p->fds[fd];
}
static void stream_peer_gone(SimFile *me) {
    SimFile *peer = me->peer;
    if (!peer) return;
    peer->peer_closed = true; peer->wr_dead = true;
    if (me->rx.len > 0) peer->reset = true;   /* closed with unread data */
    peer->peer = NULL; me->peer = NULL;
}
static void file_unref(SimFile *f) {
    if (--f->refs > 0) return;
    switch (f->kind) {
    case F_STREAM: stream_peer_gone(f); buf_free(&f->rx); break;
    case F_PIPE_R: if (--f->pipe->readers == 0 && f->pipe->writers == 0) { buf_free(&f->pipe->buf); free(f->pipe); } break;
    case F_PIPE_W: if (--f->pipe->writers == 0 && f->pipe->readers == 0) { buf_free(&f->pipe->buf); free(f->pipe); } break;
    case F_LISTEN:
        /* embryonic connections are reset */
        for (int i = 0; i < f->naccept; i++) {
            SimFile *s = f->acceptq[i];
            if (s->peer) { s->peer->peer_closed = true; s->peer->wr_dead = true; s->peer->reset = true; s->peer->peer = NULL; }
            buf_free(&s->rx); free(s);
        }
        f->naccept = 0;
        if (f->node && f->node->listener == f) f->node->listener = NULL;
        break;
    case F_SOCK:
        if (f->node && f->node->listener == f) f->node->listener = NULL;
        break;
    case F_REG:
        if (f->node) {
            if (f->node->lock_owner == f) f->node->lock_owner = NULL;
            f->node->opens--;
        }
        break;
    default: break;
    }
    free(f);
}

/* pre-syscall hook: harness may kill the calling process here */
static void pre_sys(const char *name, int fd, size_t n) {
    cur->p->syscalls++;
    if (sim_hooks.pre_syscall) {
        int sig = sim_hooks.pre_syscall(cur->p, name, fd, n);
        if (sig >= 256) { sim_event("injected-exit pid=%d code=%d", cur->p->pid, sig - 256); proc_exit(cur->p, ((sig - 256) & 0xff) << 8, false); }
        else if (sig) kill_self(sig);
    }
}

/* ---------------- read ---------------- */
static bool rdy_stream_read(SimTask *t) { SimFile *f = t->wait_obj; return f->rx.len > 0 || f->peer_closed; }
static bool rdy_pipe_read(SimTask *t) { Pipe *p = t->wait_obj; return p->buf.len > 0 || p->writers == 0; }
static size_t shorten(size_t want, int pm, uint64_t *ctr) {
    if (want > 1 && chance_pm(CH_IOLEN, pm)) { (*ctr)++; return 1 + sim_choose(CH_IOLEN, (uint32_t)(want - 1)); }
    return want;
}
ssize_t k_read(int fd, void *buf, size_t n) {
    pre_sys("read", fd, n);
    SimFile *f = fd_get(fd);
    if (!f) { errno = EBADF; return -1; }
    switch (f->kind) {
    case F_NULL: case F_CAPTURE: return 0;
    case F_PIPE_W: errno = EBADF; return -1;
    case F_REG: {
        if (!f->node || f->pos >= f->node->data.len) return 0;
        size_t k = f->node->data.len - f->pos; if (k > n) k = n;
        memcpy(buf, f->node->data.d + f->pos, k); f->pos += k; return (ssize_t)k;
    }
    case F_STREAM: case F_PIPE_R: break;
    default: errno = EINVAL; return -1;
    }
    sim_yield("r");
    if (n == 0) return 0;
    if (chance_pm(CH_EINTR, K.eintr_pm)) { S.eintrs++; errno = EINTR; return -1; }
    if (f->kind == F_STREAM) {
        if (f->rx.len == 0 && !f->peer_closed) { if (f->nonblock) { errno = EAGAIN; return -1; } S.blocked_reads++; block_on(rdy_stream_read, f, "R"); }
        if (f->rx.len == 0) {
            if (f->reset) { f->reset = false; S.econnresets++; errno = ECONNRESET; return -1; }
            S.eofs++; return 0;
        }
        size_t k = n < f->rx.len ? n : f->rx.len;
        k = shorten(k, K.short_read_pm, &S.short_reads);
        k = buf_get(&f->rx, buf, k);
        if (sim_hooks.post_read) sim_hooks.post_read(cur->p, fd, buf, k);
        return (ssize_t)k;
    } else {
        Pipe *p = f->pipe;
        if (p->buf.len == 0 && p->writers > 0) { if (f->nonblock) { errno = EAGAIN; return -1; } S.blocked_reads++; block_on(rdy_pipe_read, p, "R"); }
        if (p->buf.len == 0) { S.eofs++; return 0; }
        size_t k = n < p->buf.len ? n : p->buf.len;
        k = shorten(k, K.short_read_pm, &S.short_reads);
        k = buf_get(&p->buf, buf, k);
        if (sim_hooks.post_read) sim_hooks.post_read(cur->p, fd, buf, k);
        return (ssize_t)k;
    }
}

/* ---------------- write ---------------- */
static bool rdy_stream_write(SimTask *t) {
    SimFile *f = t->wait_obj;
    return f->wr_dead || !f->peer || f->peer->rx.len < f->peer->cap_bytes;
}
static bool rdy_pipe_write(SimTask *t) { Pipe *p = t->wait_obj; return p->readers == 0 || p->buf.len < p->cap; }
static ssize_t epipe(void) {
    S.epipes++;
    if (!cur->p->sigpipe_ign && !cur->nosignal) {   /* nosignal: send(..., MSG_NOSIGNAL) */ S.sigpipe_kills++; kill_self(SIGPIPE); }
    errno = EPIPE; return -1;
}
static ssize_t reg_write(SimFile *f, const void *buf, size_t n, bool *crash) {
    FsNode *nd = f->node;
    if (!nd) { errno = EBADF; return -1; }
    if ((f->oflags & O_ACCMODE) == O_RDONLY) { errno = EBADF; return -1; }
    if (nd->limit_on && nd->written + n >= nd->write_limit) {
        n = (size_t)(nd->write_limit - nd->written);  /* torn write: only a prefix reaches the disk */
        *crash = true;
    }
    if (f->oflags & O_APPEND) f->pos = nd->data.len;
    if (f->pos + n > nd->data.len) {
        size_t old = nd->data.len;
        if (f->pos + n > nd->data.cap) { nd->data.cap = (f->pos + n) * 2 + 64; nd->data.d = realloc(nd->data.d, nd->data.cap); }
        if (f->pos > old) memset(nd->data.d + old, 0, f->pos - old);
        nd->data.len = f->pos + n;
    }
    memcpy(nd->data.d + f->pos, buf, n);
    f->pos += n; nd->written += n;
    return (ssize_t)n;
}
ssize_t k_write(int fd, const void *buf, size_t n) {
    pre_sys("write", fd, n);
    SimFile *f = fd_get(fd);
    if (!f) { errno = EBADF; return -1; }
    switch (f->kind) {
    case F_NULL: return (ssize_t)n;
    case F_CAPTURE: buf_put(f->cap, buf, n); return (ssize_t)n;
    case F_PIPE_R: errno = EBADF; return -1;
    case F_REG: {
        bool crash = false;
        ssize_t r = reg_write(f, buf, n, &crash);
        if (crash) kill_self(SIGKILL);
        return r;
    }
    case F_STREAM: case F_PIPE_W: break;
    default: errno = EINVAL; return -1;
    }
    sim_yield("w");
    if (n == 0) return 0;
    if (chance_pm(CH_EINTR, K.eintr_pm)) { S.eintrs++; errno = EINTR; return -1; }
    Buf repl = {0}; bool replaced = false;
    const uint8_t *src = buf; size_t want = n;
    if (sim_hooks.write_filter) {
        long r = sim_hooks.write_filter(cur->p, f, buf, n, &repl);
        if (r >= 0) { src = repl.d; want = (size_t)r; replaced = true; }
    }
    size_t done = 0;
    size_t limit = replaced ? want : shorten(want, K.short_write_pm, &S.short_writes);
    while (done < limit) {
        size_t room;
        if (f->kind == F_STREAM) {
            if (f->wr_dead || !f->peer || f->shut_wr) { buf_free(&repl); if (done) return (ssize_t)done; return epipe(); }
            SimFile *d = f->peer;
            room = d->rx.len < d->cap_bytes ? d->cap_bytes - d->rx.len : 0;
            if (!room) { if (f->nonblock) { buf_free(&repl); if (done) return (ssize_t)done; errno = EAGAIN; return -1; } S.blocked_writes++; block_on(rdy_stream_write, f, "W"); continue; }
            size_t k = limit - done < room ? limit - done : room;
            buf_put(&d->rx, src + done, k); done += k;
        } else {
            Pipe *p = f->pipe;
            if (p->readers == 0) { buf_free(&repl); if (done) return (ssize_t)done; return epipe(); }
            room = p->buf.len < p->cap ? p->cap - p->buf.len : 0;
            if (!room) { if (f->nonblock) { buf_free(&repl); if (done) return (ssize_t)done; errno = EAGAIN; return -1; } S.blocked_writes++; block_on(rdy_pipe_write, p, "W"); continue; }
            size_t k = limit - done < room ? limit - done : room;
            buf_put(&p->buf, src + done, k); done += k;
        }
    }
    if (replaced) { buf_free(&repl); return (ssize_t)n; }
    return (ssize_t)done;
}
/* stdio of a simulated process flushing into its fd 1/2 */
static ssize_t fd_write_from_stdio(SimProc *p, int fd, const char *buf, size_t n) {
    SimFile *f = p->fds[fd];
    if (!f) return (ssize_t)n;            /* closed descriptor: bytes vanish (EBADF is ignored by printf callers) */
    if (f->kind == F_CAPTURE) { buf_put(f->cap, buf, n); return (ssize_t)n; }
    if (f->kind == F_NULL) return (ssize_t)n;
    if (cur && cur->p == p) {
        size_t done = 0;
        while (done < n) {
            ssize_t r = k_write(fd, buf + done, n - done);
            if (r < 0) { if (errno == EINTR) continue; return done ? (ssize_t)done : 0; }
            done += (size_t)r;
        }
        return (ssize_t)done;
    }
    return (ssize_t)n;
}

/* ---------------- close / dup ---------------- */
int k_close(int fd) {
    pre_sys("close", fd, 0);
    SimFile *f = fd_get(fd);
    if (!f) { errno = EBADF; return -1; }
    cur->p->fds[fd] = NULL;
    file_unref(f);
    return 0;
}
static int k_dup2(int a, int b) {
    SimFile *f = fd_get(a);
    if (!f || b < 0 || b >= SIM_MAXFD) { errno = EBADF; return -1; }
    if (a == b) return b;
    if (cur->p->fds[b]) { SimFile *x = cur->p->fds[b]; cur->p->fds[b] = NULL; file_unref(x); }
    cur->p->fds[b] = f; f->refs++;
    return b;
}

/* ---------------- sockets ---------------- */
int k_socket(void) {
    SimFile *f = file_new(F_SOCK);
    int fd = fd_alloc(cur->p, f);
    if (fd < 0) free(f);
    return fd;
}
static int k_bind(int fd, const char *path) {
    SimFile *f = fd_get(fd);
    if (!f || f->kind != F_SOCK) { errno = EBADF; return -1; }
    if (simfs_lookup(path)) { errno = EADDRINUSE; return -1; }
    FsNode *nd = simfs_create(path, 1);
    snprintf(f->path, sizeof f->path, "%s", path);
    f->node = nd; nd->listener = NULL;
    return 0;
}
static int k_listen(int fd, int backlog) {
    SimFile *f = fd_get(fd);
    if (!f || (f->kind != F_SOCK && f->kind != F_LISTEN) || !f->node) { errno = EINVAL; return -1; }
    f->kind = F_LISTEN; f->backlog = backlog < 0 ? 0 : (backlog > 120 ? 120 : backlog);
    f->node->listener = f;
    return 0;
}
static bool rdy_connect(SimTask *t) {
    FsNode *nd = t->wait_obj;
    return !nd->listener || nd->listener->naccept <= nd->listener->backlog || nd->links == 0;
}
int k_connect_path(int fd, const char *path) {
    pre_sys("connect", fd, 0);
    SimFile *f = fd_get(fd);
    if (!f || f->kind != F_SOCK) { errno = EBADF; return -1; }
    sim_yield("c");
    for (;;) {
        FsNode *nd = simfs_lookup(path);
        if (!nd) { S.conn_refused++; errno = ENOENT; return -1; }
        if (nd->kind != 1 || !nd->listener) { S.conn_refused++; errno = ECONNREFUSED; return -1; }
        SimFile *l = nd->listener;
        if (l->naccept > l->backlog) { if (f->nonblock) { errno = EAGAIN; return -1; } S.backlog_waits++; block_on(rdy_connect, nd, "C"); continue; }
        SimFile *srv = file_new(F_STREAM);
        srv->cap_bytes = f->cap_bytes = (size_t)K.sock_cap;
        f->kind = F_STREAM; f->peer = srv; srv->peer = f;
        l->acceptq[l->naccept++] = srv;
        return 0;
    }
}
static bool rdy_accept(SimTask *t) { SimFile *f = t->wait_obj; return f->naccept > 0; }
static int k_accept(int fd) {
    pre_sys("accept", fd, 0);
    SimFile *f = fd_get(fd);
    if (!f || f->kind != F_LISTEN) { errno = EINVAL; return -1; }
    sim_yield("a");
    if (!f->naccept) { if (f->nonblock) { errno = EAGAIN; return -1; } block_on(rdy_accept, f, "A"); }
    if (K.accept_fail_pm && cur->p->img && (int)sim_choose(CH_MISC, 1000) < K.accept_fail_pm) {
        static const int errs[] = { EMFILE, ENFILE, ENOMEM, ECONNABORTED, ENOBUFS };
        S.accept_fails++; errno = errs[sim_choose(CH_MISC, 5)]; return -1;   /* the connection stays in the backlog */
    }
    SimFile *s = f->acceptq[0];
    memmove(f->acceptq, f->acceptq + 1, (size_t)(--f->naccept) * sizeof(SimFile *));
    int nfd = fd_alloc(cur->p, s);
    if (nfd < 0) { s->refs = 1; file_unref(s); return -1; }
    return nfd;
}
int k_shutdown_wr(int fd) {
    SimFile *f = fd_get(fd);
    if (!f || f->kind != F_STREAM) { errno = ENOTSOCK; return -1; }
    f->shut_wr = true;
    if (f->peer) f->peer->peer_closed = true;
    return 0;
}
static bool file_readable(SimFile *f) {
    switch (f->kind) {
    case F_LISTEN: return f->naccept > 0;
    case F_STREAM: return f->rx.len > 0 || f->peer_closed;
    case F_PIPE_R: return f->pipe->buf.len > 0 || f->pipe->writers == 0;
    case F_REG: case F_NULL: return true;
    default: return false;
    }
}
static bool rdy_poll(SimTask *t) {
    struct pollfd *p = t->wait_obj; int n = (int)(intptr_t)t->wait_obj2;
    for (int i = 0; i < n; i++) {
        if (p[i].fd < 0 || p[i].fd >= SIM_MAXFD) continue;
        SimFile *f = t->p->fds[p[i].fd];
        if (f && (p[i].events & POLLIN) && file_readable(f)) return true;
    }
    return false;
}
static int poll_fill(SimProc *pr, struct pollfd *p, int n) {
    int k = 0;
    for (int i = 0; i < n; i++) {
        p[i].revents = 0;
        if (p[i].fd < 0) continue;
        SimFile *f = p[i].fd < SIM_MAXFD ? pr->fds[p[i].fd] : NULL;
        if (!f) { p[i].revents = POLLNVAL; k++; continue; }
        if (f->kind == F_PIPE_R) {   /* a pipe whose writers are gone reports hang-up; "readable" only while bytes are left */
            if ((p[i].events & POLLIN) && f->pipe->buf.len > 0) p[i].revents |= POLLIN;
            if (f->pipe->writers == 0) p[i].revents |= POLLHUP;
        } else if ((p[i].events & POLLIN) && file_readable(f)) p[i].revents |= POLLIN;
        if (f->kind == F_STREAM && f->peer_closed && f->rx.len == 0) p[i].revents |= POLLHUP;
        if ((p[i].events & POLLOUT) && (f->kind == F_STREAM || f->kind == F_PIPE_W)) p[i].revents |= POLLOUT;
        if (f->kind == F_PIPE_W && f->pipe->readers == 0) p[i].revents |= POLLERR;
        if (p[i].revents) k++;
    }
    return k;
}
static int k_poll(struct pollfd *p, nfds_t n, int timeout) {
    pre_sys("poll", n ? p[0].fd : -1, 0);
    sim_yield("o");
    int k = poll_fill(cur->p, p, (int)n);
    if (k || timeout == 0) return k;
    cur->wait_obj2 = (void *)(intptr_t)n;
    if (timeout > 0) { cur->timed = true; cur->wake_at = now_us + (uint64_t)timeout * 1000; }
    block_on(rdy_poll, p, "O");
    cur->timed = false;
    k = poll_fill(cur->p, p, (int)n);
    if (!k) S.poll_timeouts++;
    return k;
}

/* ---------------- pipes ---------------- */
static int k_pipe(int fds[2]) {
    Pipe *p = calloc(1, sizeof *p);
    p->cap = (size_t)K.pipe_cap; p->readers = p->writers = 1;
    SimFile *r = file_new(F_PIPE_R), *w = file_new(F_PIPE_W);
    r->pipe = w->pipe = p;
    fds[0] = fd_alloc(cur->p, r); fds[1] = fd_alloc(cur->p, w);
    return 0;
}

/* ---------------- time ---------------- */
void sim_sleep_us(uint64_t us) {
    S.sleeps++;
    cur->timed = true; cur->wake_at = now_us + us;
    block_on(NULL, NULL, "S");
    cur->timed = false;
}

static bool rdy_never(SimTask *t) { (void)t; return false; }
void sim_block_forever(void) { block_on(rdy_never, NULL, "X"); }

/* ---------------- fork / exec / wait ---------------- */
static char exec_missing[8][32]; static int n_exec_missing;
void sim_exec_set_missing(const char *b, bool missing) {
    if (!missing) { n_exec_missing = 0; return; }
    snprintf(exec_missing[n_exec_missing++], 32, "%s", b);
}
jmp_buf *sim_vfork_prepare(void) {
    SimProc *par = cur->p;
    S.forks++;
    SimProc *ch = proc_new("forked", par);
    snprintf(ch->name, sizeof ch->name, "%s(child)", par->name);
    for (int i = 0; i < SIM_MAXFD; i++) if (par->fds[i]) { ch->fds[i] = par->fds[i]; ch->fds[i]->refs++; }
    ch->sigpipe_ign = par->sigpipe_ign;
    ch->share = par; ch->img = par->img;
    ch->vfork_parent = par; ch->in_vfork_child = true;
    ch->env = par->env; ch->nenv = par->nenv;
    strcpy(ch->cwd, par->cwd);
    ch->vfork_jb = malloc(sizeof(jmp_buf));
    cur->p = ch;
    sim_event("fork parent=%d child=%d", par->pid, ch->pid);
    return (jmp_buf *)ch->vfork_jb;
}
/* `fork` in the images is compiled as `vfork`; this stub makes the child branch
 * of the real code run first on the parent's stack with the child's identity. */
__asm__(".text\n.globl __wrap_vfork\n.type __wrap_vfork,@function\n__wrap_vfork:\n"
        " sub $8,%rsp\n call sim_vfork_prepare\n add $8,%rsp\n mov %rax,%rdi\n jmp _setjmp\n");
static void vfork_resume_parent(SimProc *ch, int rv) {
    SimProc *par = ch->vfork_parent;
    ch->in_vfork_child = false; ch->share = NULL;
    cur->p = par;
    longjmp(*(jmp_buf *)ch->vfork_jb, rv);
}
static const char *base_name(const char *p) { const char *s = strrchr(p, '/'); return s ? s + 1 : p; }
static int k_exec(const char *file, char *const argv[]) {
    SimProc *ch = cur->p;
    pre_sys("exec", -1, 0);
    if (!ch->in_vfork_child) { errno = ENOSYS; return -1; }
    const char *b = base_name(file);
    for (int i = 0; i < n_exec_missing; i++) if (strcmp(exec_missing[i], b) == 0) { S.exec_fails++; errno = ENOENT; return -1; }
    SimImage *im = sim_image(b);
    if (!im) { S.exec_fails++; errno = ENOENT; return -1; }
    S.execs++;
    snprintf(ch->name, sizeof ch->name, "%s", b);
    ch->role = im->name;
    ch->share = NULL; proc_set_image(ch, im);
    ch->sigterm_handler = NULL;
    SimTask *nt = task_new(ch);
    int argc = 0; while (argv && argv[argc]) argc++;
    char **av = calloc((size_t)argc + 1, sizeof(char *));
    for (int i = 0; i < argc; i++) av[i] = strdup(argv[i]);
    nt->mainfn = im->entry; nt->argc = argc; nt->argv = av;
    sim_event("exec pid=%d image=%s", ch->pid, b);
    vfork_resume_parent(ch, ch->pid);
    return -1;
}
static bool proc_waitable(SimProc *p) { return p->zombie && now_us >= p->zombie_at; }
static bool rdy_zombie(SimTask *t) { return proc_waitable(t->wait_obj); }
static pid_t k_waitpid(pid_t pid, int *st, int opt) {
    pre_sys("waitpid", -1, 0);
    SimProc *p = sim_find_pid(pid);
    if (!p || p->ppid != img_identity(cur->p)->pid) { errno = ECHILD; return -1; }
    sim_yield("z");
    if (!proc_waitable(p)) {
        if (opt & WNOHANG) { S.waitpid_nohang_zero++; return 0; }
        if (p->zombie) { cur->timed = true; cur->wake_at = p->zombie_at; }
        block_on(rdy_zombie, p, "Z");
        cur->timed = false;
    }
    if (st) *st = p->status;
    p->zombie = false; p->reaped = true;
    return pid;
}
static int k_kill(pid_t pid, int sig) {
    pre_sys("kill", -1, 0);
    SimProc *p = sim_find_pid(pid);
    if (!p) { errno = ESRCH; return -1; }
    if (sig == 0) return 0;
    if (!p->alive) return 0;
    if (sig == SIGTERM && p->sigterm_handler) {
        /* handler runs in the target; our images only set a flag there */
        SimProc *me = cur->p;
        img_activate(p); race_in_signal++; p->sigterm_handler(sig); race_in_signal--; img_activate(me);
        return 0;
    }
    S.kills++;
    sim_event("kill from=%d to=%d sig=%d", cur->p->pid, pid, sig);
    proc_exit(p, sig, false);
    return 0;
}

/* ---------------- pthreads as tasks ---------------- */
typedef struct SimMutex { void *addr; SimProc *p; SimTask *owner; int waiters; int readers; } SimMutex;
#define MAXMUTEX 1024
static SimMutex mutexes[MAXMUTEX]; static int nmutex;
static SimMutex *mutex_get(void *addr) {
    SimProc *id = img_identity(cur->p);
    for (int i = 0; i < nmutex; i++) if (mutexes[i].addr == addr && mutexes[i].p == id) return &mutexes[i];
    if (nmutex == MAXMUTEX) {   /* mutexes in short-lived heap objects: take over the slot of one that nobody holds (slots never move: waiters point at them) */
        for (int i = 0; i < nmutex; i++) if (!mutexes[i].owner && !mutexes[i].readers) { SimMutex *m = &mutexes[i]; m->addr = addr; m->p = id; m->waiters = 0; return m; }
        abort();
    }
    SimMutex *m = &mutexes[nmutex++]; m->addr = addr; m->p = id; m->owner = NULL; m->waiters = 0; m->readers = 0;
    return m;
}
static bool rdy_mutex(SimTask *t) { SimMutex *m = t->wait_obj; return m->owner == NULL || m->owner->state == T_DONE || m->owner->state == T_FREE; }
static int k_mutex_lock(void *addr) {
    SimMutex *m = mutex_get(addr);
    sim_yield("m");
    while (m->owner && m->owner != cur && m->owner->state != T_DONE && m->owner->state != T_FREE) {
        S.mutex_contended++;
        block_on(rdy_mutex, m, "M");
    }
    m->owner = cur;
    if (sim_proc_race(cur->p)) race_acquire(cur->id, addr);
    if (K.preempt_mean && sim_choose(CH_PREEMPT, 2)) sim_yield("n");   /* descheduled while holding the lock */
    return 0;
}
static int k_mutex_unlock(void *addr) {
    SimMutex *m = mutex_get(addr);
    if (m->owner == cur && sim_proc_race(cur->p)) race_release(cur->id, addr);
    if (m->owner == cur) m->owner = NULL;
    return 0;
}

/* ======================================================================
 * libc wrappers
 * ====================================================================== */
ssize_t __wrap_read(int fd, void *buf, size_t n) { if (!cur) return __real_read(fd, buf, n); return k_read(fd, buf, n); }
ssize_t __wrap_write(int fd, const void *buf, size_t n) { if (!cur) return __real_write(fd, buf, n); return k_write(fd, buf, n); }
int __wrap_close(int fd) { if (!cur) return __real_close(fd); return k_close(fd); }
int __wrap_dup2(int a, int b) { if (!cur) return __real_dup2(a, b); return k_dup2(a, b); }
int __wrap_dup(int a) {
    if (!cur) return __real_dup(a);
    SimFile *f = fd_get(a); if (!f) { errno = EBADF; return -1; }
    return fd_alloc(cur->p, f);
}
ssize_t __wrap_send(int fd, const void *b, size_t n, int fl) {
    cur->nosignal = (fl & MSG_NOSIGNAL) != 0;
    ssize_t r = k_write(fd, b, n);
    cur->nosignal = false;
    return r;
}
ssize_t __wrap_recv(int fd, void *b, size_t n, int fl) { (void)fl; return k_read(fd, b, n); }
int __wrap_socket(int d, int t, int pr) { (void)d; (void)t; (void)pr; return k_socket(); }
int __wrap_bind(int fd, const struct sockaddr *a, socklen_t l) { (void)l; return k_bind(fd, ((const struct sockaddr_un *)a)->sun_path); }
int __wrap_listen(int fd, int b) { return k_listen(fd, b); }
int __wrap_connect(int fd, const struct sockaddr *a, socklen_t l) { (void)l; return k_connect_path(fd, ((const struct sockaddr_un *)a)->sun_path); }
int __wrap_accept(int fd, struct sockaddr *a, socklen_t *l) { (void)a; (void)l; return k_accept(fd); }
int __wrap_shutdown(int fd, int how) { if (how == SHUT_RD) return 0; return k_shutdown_wr(fd); }
int __wrap_poll(struct pollfd *p, nfds_t n, int timeout) { if (!cur) return __real_poll(p, n, timeout); return k_poll(p, n, timeout); }
int __wrap_pipe(int fds[2]) { if (!cur) return __real_pipe(fds); return k_pipe(fds); }
int __wrap_usleep(useconds_t us) { if (!cur) return __real_usleep(us); pre_sys("usleep", -1, 0); sim_sleep_us(us); return 0; }
unsigned __real_sleep(unsigned);
unsigned __wrap_sleep(unsigned s) { if (!cur) return __real_sleep(s); pre_sys("sleep", -1, 0); sim_sleep_us((uint64_t)s * 1000000); return 0; }
int __real_nanosleep(const struct timespec *, struct timespec *);
int __wrap_nanosleep(const struct timespec *rq, struct timespec *rm) { if (!cur) return __real_nanosleep(rq, rm); (void)rm; pre_sys("nanosleep", -1, 0); sim_sleep_us((uint64_t)rq->tv_sec * 1000000 + (uint64_t)rq->tv_nsec / 1000); return 0; }
static uint64_t epoch_base = 1700000000ull;
void sim_set_epoch(uint64_t e) { epoch_base = e; }
void sim_set_next_pid(int p) { next_pid = p; }
time_t __wrap_time(time_t *t) { if (!cur) return __real_time(t); time_t v = (time_t)(epoch_base + now_us / 1000000); if (t) *t = v; return v; }
int __real_clock_gettime(clockid_t, struct timespec *);
int __wrap_clock_gettime(clockid_t c, struct timespec *ts) {
    if (!cur) return __real_clock_gettime(c, ts);
    ts->tv_sec = (time_t)(epoch_base + now_us / 1000000); ts->tv_nsec = (long)(now_us % 1000000) * 1000; return 0;
}
int __real_gettimeofday(struct timeval *, void *);
int __wrap_gettimeofday(struct timeval *tv, void *tz) {
    if (!cur) return __real_gettimeofday(tv, tz);
    tv->tv_sec = (time_t)(epoch_base + now_us / 1000000); tv->tv_usec = (long)(now_us % 1000000); return 0;
}
clock_t __real_clock(void);
clock_t __wrap_clock(void) { if (!cur) return __real_clock(); return (clock_t)now_us; }

pid_t __wrap_getpid(void) { return cur ? cur->p->pid : __real_getpid(); }
pid_t __wrap_getppid(void) { return cur ? cur->p->ppid : 1; }
static unsigned sim_uid = 4242;
void sim_set_uid(unsigned u) { sim_uid = u; }
uid_t __real_getuid(void);
uid_t __wrap_getuid(void) { if (!cur) return __real_getuid(); return sim_uid; }
pid_t __real_setsid(void);
pid_t __wrap_setsid(void) { if (!cur) return __real_setsid(); return cur->p->pid; }
int __wrap_sigaction(int sig, const struct sigaction *sa, struct sigaction *old) {
    if (!cur) return 0;
    if (old) memset(old, 0, sizeof *old);
    if (!sa) return 0;
    SimProc *p = img_identity(cur->p);
    if (sig == SIGPIPE) p->sigpipe_ign = (sa->sa_handler == SIG_IGN);
    if (sig == SIGTERM) p->sigterm_handler = (sa->sa_handler == SIG_IGN || sa->sa_handler == SIG_DFL) ? NULL : sa->sa_handler;
    return 0;
}
typedef void (*sighandler_t)(int);
sighandler_t __wrap_signal(int sig, sighandler_t h) {
    if (!cur) return SIG_DFL;
    SimProc *p = img_identity(cur->p);
    if (sig == SIGPIPE) p->sigpipe_ign = (h == SIG_IGN);
    if (sig == SIGTERM) p->sigterm_handler = (h == SIG_IGN || h == SIG_DFL) ? NULL : h;
    return SIG_DFL;
}
int __real_pthread_create(pthread_t *, const pthread_attr_t *, void *(*)(void *), void *);
int __wrap_pthread_create(pthread_t *t, const pthread_attr_t *a, void *(*fn)(void *), void *arg) {
    if (!cur) return __real_pthread_create(t, a, fn, arg);
    SimTask *nt = task_new(cur->p);
    if (sim_proc_race(cur->p)) race_thread_start(cur->id, nt->id);
    nt->fn = fn; nt->arg = arg;
    *t = (pthread_t)(uintptr_t)nt;
    S.threads_created++;
    sim_yield("t");
    return 0;
}
int __real_pthread_detach(pthread_t);
int __wrap_pthread_detach(pthread_t t) { if (!cur) return __real_pthread_detach(t); return 0; }
int __wrap_pthread_mutex_lock(pthread_mutex_t *m) { if (!cur) return 0; return k_mutex_lock(m); }
int __wrap_pthread_mutex_unlock(pthread_mutex_t *m) { if (!cur) return 0; return k_mutex_unlock(m); }
/* reader/writer locks: any number of readers or one writer; the race detector sees every lock as an acquire and every unlock as a release */
static bool owner_alive(SimMutex *m) { return m->owner && m->owner->state != T_DONE && m->owner->state != T_FREE; }
static bool rdy_rd(SimTask *t) { return !owner_alive(t->wait_obj); }
static bool rdy_wr(SimTask *t) { SimMutex *m = t->wait_obj; return !owner_alive(m) && m->readers == 0; }
int __wrap_pthread_rwlock_rdlock(pthread_rwlock_t *l) {
    if (!cur) return 0;
    SimMutex *m = mutex_get(l); sim_yield("m");
    while (owner_alive(m) && m->owner != cur) { S.mutex_contended++; block_on(rdy_rd, m, "M"); }
    m->readers++; if (sim_proc_race(cur->p)) race_acquire(cur->id, l);
    return 0;
}
int __wrap_pthread_rwlock_tryrdlock(pthread_rwlock_t *l) {
    if (!cur) return 0;
    SimMutex *m = mutex_get(l); sim_yield("m");
    if (owner_alive(m)) return EBUSY;
    m->readers++; if (sim_proc_race(cur->p)) race_acquire(cur->id, l);
    return 0;
}
int __wrap_pthread_rwlock_wrlock(pthread_rwlock_t *l) {
    if (!cur) return 0;
    SimMutex *m = mutex_get(l); sim_yield("m");
    while ((owner_alive(m) && m->owner != cur) || m->readers > 0) { S.mutex_contended++; block_on(rdy_wr, m, "M"); }
    m->owner = cur; if (sim_proc_race(cur->p)) race_acquire(cur->id, l);
    return 0;
}
int __wrap_pthread_rwlock_trywrlock(pthread_rwlock_t *l) {
    if (!cur) return 0;
    SimMutex *m = mutex_get(l); sim_yield("m");
    if (owner_alive(m) || m->readers > 0) return EBUSY;
    m->owner = cur; if (sim_proc_race(cur->p)) race_acquire(cur->id, l);
    return 0;
}
int __wrap_pthread_rwlock_unlock(pthread_rwlock_t *l) {
    if (!cur) return 0;
    SimMutex *m = mutex_get(l);
    if (sim_proc_race(cur->p)) race_release(cur->id, l);
    if (m->owner == cur) m->owner = NULL; else if (m->readers > 0) m->readers--;
    return 0;
}

int __wrap_execlp(const char *file, const char *arg, ...) {
    char *av[16]; int n = 0; va_list ap; va_start(ap, arg);
    for (const char *a = arg; a && n < 15; a = va_arg(ap, const char *)) av[n++] = (char *)a;
    va_end(ap); av[n] = NULL;
    return k_exec(file, av);
}
int __wrap_execl(const char *file, const char *arg, ...) {
    char *av[16]; int n = 0; va_list ap; va_start(ap, arg);
    for (const char *a = arg; a && n < 15; a = va_arg(ap, const char *)) av[n++] = (char *)a;
    va_end(ap); av[n] = NULL;
    return k_exec(file, av);
}
int __real_execvp(const char *, char *const[]);
int __wrap_execvp(const char *file, char *const argv[]) { if (!cur) return __real_execvp(file, argv); return k_exec(file, argv); }
int __real_execv(const char *, char *const[]);
int __wrap_execv(const char *file, char *const argv[]) { if (!cur) return __real_execv(file, argv); return k_exec(file, argv); }
void __wrap__exit(int code) {
    if (!cur) __real__exit(code);
    proc_exit(cur->p, (code & 0xff) << 8, false);
    abort();
}
void __wrap_exit(int code) {
    if (!cur) __real_exit(code);
    proc_exit(cur->p, (code & 0xff) << 8, true);
    abort();
}

pid_t __wrap_waitpid(pid_t pid, int *st, int opt) { if (!cur) return __real_waitpid(pid, st, opt); return k_waitpid(pid, st, opt); }
int __wrap_kill(pid_t pid, int sig) { if (!cur) return __real_kill(pid, sig); return k_kill(pid, sig); }

/* ---------------- environment ---------------- */
char *__wrap_getenv(const char *k) {
    if (!cur) return __real_getenv(k);
    SimProc *p = cur->p; size_t kl = strlen(k);
    for (int i = p->nenv - 1; i >= 0; i--)
        if (strncmp(p->env[i], k, kl) == 0 && p->env[i][kl] == '=') return p->env[i] + kl + 1;
    return NULL;   /* simulated processes see only their simulated environment */
}

/* setlocale(cat, "") asks libc to read the environment; libc would read the real one.  The seam resolves the request from
 * the simulated process's environment (LC_ALL, then LC_<category>, then LANG) and hands libc the resulting name; the private
 * locale xx_XX (decimal comma, built by the check into build/locale, found through LOCPATH) makes "an installed non-C
 * locale" a configuration the environment family can draw.  A program that never calls setlocale is not affected. */
#include <locale.h>
char *__real_setlocale(int, const char *);
static const char *sim_locale_for(const char *catname) {
    const char *v = __wrap_getenv("LC_ALL"); if (v && *v) return v;
    v = __wrap_getenv(catname); if (v && *v) return v;
    v = __wrap_getenv("LANG"); if (v && *v) return v;
    return "C";
}
char *__wrap_setlocale(int cat, const char *loc) {
    if (!cur || !loc || loc[0]) return __real_setlocale(cat, loc);
    static const struct { int c; const char *n; } cats[] = { { LC_CTYPE, "LC_CTYPE" }, { LC_NUMERIC, "LC_NUMERIC" }, { LC_TIME, "LC_TIME" }, { LC_COLLATE, "LC_COLLATE" },
                                                             { LC_MONETARY, "LC_MONETARY" }, { LC_MESSAGES, "LC_MESSAGES" } };
    char *r = NULL;
    for (unsigned i = 0; i < sizeof cats / sizeof *cats; i++) if (cat == LC_ALL || cat == cats[i].c) {
        char *q = __real_setlocale(cats[i].c, sim_locale_for(cats[i].n));
        if (cat != LC_ALL) r = q;
    }
    if (cat == LC_ALL) r = __real_setlocale(LC_ALL, NULL);
    return r;
}
int __wrap_setenv(const char *k, const char *v, int ow) {
    if (!cur) return 0;
    if (!ow && __wrap_getenv(k)) return 0;
    char *kv = malloc(strlen(k) + strlen(v) + 2); sprintf(kv, "%s=%s", k, v);
    SimProc *p = cur->p;
    /* copy-on-write: env may be shared with a vfork parent */
    char **ne = malloc(sizeof(char *) * (size_t)(p->nenv + 1));
    memcpy(ne, p->env, sizeof(char *) * (size_t)p->nenv); ne[p->nenv] = kv;
    p->env = ne; p->nenv++;
    return 0;
}
int __wrap_unsetenv(const char *k) {
    if (!cur) return 0;
    SimProc *p = cur->p; size_t kl = strlen(k);
    char **ne = malloc(sizeof(char *) * (size_t)(p->nenv + 1)); int n = 0;
    for (int i = 0; i < p->nenv; i++) if (!(strncmp(p->env[i], k, kl) == 0 && p->env[i][kl] == '=')) ne[n++] = p->env[i];
    p->env = ne; p->nenv = n;
    return 0;
}
int __real_isatty(int);
int __wrap_isatty(int fd) { if (!cur) return __real_isatty(fd); return 0; }

/* ---------------- helpers for simfs.c ---------------- */
SimFile *simk_file_new_reg(FsNode *n, int oflags) {
    SimFile *f = file_new(n ? F_REG : F_NULL);
    f->node = n; f->oflags = oflags; f->pos = 0;
    return f;
}
int simk_fd_install(SimFile *f) { int fd = fd_alloc(cur->p, f); if (fd < 0) free(f); return fd; }
SimFile *simk_fd_get(int fd) { return fd_get(fd); }
void simk_note_syscall(const char *name, int fd) { pre_sys(name, fd, 0); }
void simk_kill_self(int sig) { kill_self(sig); }
void simk_proc_close_fd(SimProc *p, int fd) { if (fd >= 0 && fd < SIM_MAXFD && p->fds[fd]) { SimFile *f = p->fds[fd]; p->fds[fd] = NULL; file_unref(f); } }
/* tasks of p that wait for a peer (socket or pipe transfer, connect, a child's death): at quiescence every peer is gone, so
 * such a task can never run again.  Tasks parked on a condition variable, semaphore or mutex are not counted: that is how a
 * helper thread (a reaper, a pool worker) legitimately idles. */
int sim_proc_tasks_stuck_on_peer(SimProc *p) {
    int n = 0;
    for (int i = 0; i < MAXT; i++) if (tasks[i].state == T_BLOCKED && tasks[i].p == p && tasks[i].ready &&
        (tasks[i].ready == rdy_stream_read || tasks[i].ready == rdy_stream_write || tasks[i].ready == rdy_pipe_read || tasks[i].ready == rdy_pipe_write ||
         tasks[i].ready == rdy_connect || tasks[i].ready == rdy_zombie)) n++;
    return n;
}
int sim_proc_live_tasks(SimProc *p) {
    int n = 0;
    for (int i = 0; i < MAXT; i++) if ((tasks[i].state == T_RUNNABLE || tasks[i].state == T_BLOCKED) && tasks[i].p == p) n++;
    return n;
}
off_t __real_lseek(int, off_t, int);

/* ---------------- conformance-suite helpers ---------------- */
int sim_connect_would_block(const char *path) {
    FsNode *nd = simfs_lookup(path);
    return nd && nd->kind == 1 && nd->listener && nd->listener->naccept > nd->listener->backlog;
}
SimProc *sim_spawn_child_fn(const char *role, void *(*fn)(void *), void *arg) {
    SimProc *p = sim_spawn_fn(role, fn, arg, now_us);
    p->ppid = cur->p->pid;
    return p;
}

/* ---------------- neighbouring calls, so that a refactoring (write -> writev, poll -> select, pipe -> pipe2 ...) stays
 * inside the simulated kernel instead of falling through to the real one (DESIGN.md 2.8) ---------------- */
#include <sys/uio.h>
#include <sys/select.h>
ssize_t __real_writev(int, const struct iovec *, int);
ssize_t __wrap_writev(int fd, const struct iovec *iov, int n) {
    if (!cur) return __real_writev(fd, iov, n);
    Buf b = {0}; for (int i = 0; i < n; i++) buf_put(&b, iov[i].iov_base, iov[i].iov_len);
    ssize_t r = k_write(fd, b.d, b.len); buf_free(&b); return r;
}
ssize_t __real_readv(int, const struct iovec *, int);
ssize_t __wrap_readv(int fd, const struct iovec *iov, int n) {
    if (!cur) return __real_readv(fd, iov, n);
    size_t tot = 0; for (int i = 0; i < n; i++) tot += iov[i].iov_len;
    uint8_t *tmp = malloc(tot ? tot : 1); ssize_t r = k_read(fd, tmp, tot);
    if (r > 0) { size_t off = 0; for (int i = 0; i < n && off < (size_t)r; i++) { size_t k2 = iov[i].iov_len < (size_t)r - off ? iov[i].iov_len : (size_t)r - off; memcpy(iov[i].iov_base, tmp + off, k2); off += k2; } }
    free(tmp); return r;
}
int __real_pipe2(int[2], int);
int __wrap_pipe2(int fds[2], int flags) {
    if (!cur) return __real_pipe2(fds, flags);
    int r = k_pipe(fds);
    if (r == 0 && (flags & O_NONBLOCK)) { cur->p->fds[fds[0]]->nonblock = cur->p->fds[fds[1]]->nonblock = true; }
    return r;
}
int __real_accept4(int, struct sockaddr *, socklen_t *, int);
int __wrap_accept4(int fd, struct sockaddr *a, socklen_t *l, int flags) {
    if (!cur) return __real_accept4(fd, a, l, flags);
    int r = k_accept(fd);
    if (r >= 0 && (flags & SOCK_NONBLOCK)) cur->p->fds[r]->nonblock = true;
    return r;
}
int __real_dup3(int, int, int);
int __wrap_dup3(int a, int b, int fl) { if (!cur) return __real_dup3(a, b, fl); if (a == b) { errno = EINVAL; return -1; } return k_dup2(a, b); }
int __real_socketpair(int, int, int, int[2]);
int __wrap_socketpair(int d, int t, int p, int sv[2]) {
    if (!cur) return __real_socketpair(d, t, p, sv);
    SimFile *x = file_new(F_STREAM), *y = file_new(F_STREAM);
    x->peer = y; y->peer = x; x->cap_bytes = y->cap_bytes = (size_t)K.sock_cap;
    sv[0] = fd_alloc(cur->p, x); sv[1] = fd_alloc(cur->p, y);
    return 0;
}
int __real_fcntl(int, int, ...);
int __wrap_fcntl(int fd, int cmd, ...) {
    va_list ap; va_start(ap, cmd); long arg = va_arg(ap, long); va_end(ap);
    if (!cur) return __real_fcntl(fd, cmd, arg);
    SimFile *f = fd_get(fd);
    if (!f) { errno = EBADF; return -1; }
    switch (cmd) {
    case F_GETFD: case F_SETFD: return 0;
    case F_GETFL: return (f->oflags & O_ACCMODE) | (f->nonblock ? O_NONBLOCK : 0) | ((f->kind == F_STREAM || f->kind == F_SOCK || f->kind == F_LISTEN) ? O_RDWR : 0);
    case F_SETFL: f->nonblock = (arg & O_NONBLOCK) != 0; return 0;
    case F_DUPFD: case F_DUPFD_CLOEXEC: return fd_alloc_from(cur->p, f, (int)arg);
    default: errno = EINVAL; return -1;
    }
}
int __real_select(int, fd_set *, fd_set *, fd_set *, struct timeval *);
int __wrap_select(int n, fd_set *rd, fd_set *wr, fd_set *ex, struct timeval *tv) {
    if (!cur) return __real_select(n, rd, wr, ex, tv);
    struct pollfd p[SIM_MAXFD]; int np = 0;
    for (int i = 0; i < n && i < SIM_MAXFD; i++) {
        short ev = 0; if (rd && FD_ISSET(i, rd)) ev |= POLLIN; if (wr && FD_ISSET(i, wr)) ev |= POLLOUT;
        if (ev) { p[np].fd = i; p[np].events = ev; p[np].revents = 0; np++; }
    }
    int r = k_poll(p, (nfds_t)np, tv ? (int)(tv->tv_sec * 1000 + tv->tv_usec / 1000) : -1);
    if (rd) FD_ZERO(rd); if (wr) FD_ZERO(wr); if (ex) FD_ZERO(ex);
    int cnt = 0;
    for (int i = 0; i < np && r > 0; i++) {
        if (rd && (p[i].revents & (POLLIN | POLLHUP))) { FD_SET(p[i].fd, rd); cnt++; }
        if (wr && (p[i].revents & POLLOUT)) { FD_SET(p[i].fd, wr); cnt++; }
    }
    return r < 0 ? r : cnt;
}
off_t __wrap_lseek(int fd, off_t off, int whence) {
    if (!cur) return __real_lseek(fd, off, whence);
    SimFile *f = fd_get(fd);
    if (!f) { errno = EBADF; return -1; }
    if (f->kind != F_REG || !f->node || f->node->kind == 2) { errno = ESPIPE; return -1; }
    off_t base = whence == SEEK_SET ? 0 : whence == SEEK_CUR ? (off_t)f->pos : (off_t)f->node->data.len;
    if (base + off < 0) { errno = EINVAL; return -1; }
    f->pos = (size_t)(base + off); return (off_t)f->pos;
}
int __real_fstat(int, struct stat *);
int __wrap_fstat(int fd, struct stat *st) {
    if (!cur) return __real_fstat(fd, st);
    SimFile *f = fd_get(fd);
    if (!f) { errno = EBADF; return -1; }
    memset(st, 0, sizeof *st);
    if (f->kind == F_REG && f->node && f->node->kind == 2) st->st_mode = S_IFIFO | 0644;
    else if (f->kind == F_REG && f->node) { st->st_mode = S_IFREG | 0644; st->st_size = (off_t)f->node->data.len; }
    else if (f->kind == F_PIPE_R || f->kind == F_PIPE_W) st->st_mode = S_IFIFO | 0600;
    else if (f->kind == F_STREAM || f->kind == F_SOCK || f->kind == F_LISTEN) st->st_mode = S_IFSOCK | 0600;
    else st->st_mode = S_IFCHR | 0600;
    return 0;
}
static bool rdy_task_done(SimTask *t) { SimTask *o = t->wait_obj; return o->state == T_DONE || o->state == T_FREE; }
int __real_pthread_join(pthread_t, void **);
int __wrap_pthread_join(pthread_t th, void **ret) {
    if (!cur) return __real_pthread_join(th, ret);
    SimTask *o = (SimTask *)(uintptr_t)th;
    sim_yield("j");
    if (!(o->state == T_DONE || o->state == T_FREE)) block_on(rdy_task_done, o, "J");
    if (sim_proc_race(cur->p)) race_thread_join(cur->id, o->id);
    if (ret) *ret = NULL;
    return 0;
}
int __wrap_pthread_mutex_trylock(pthread_mutex_t *m) {
    if (!cur) return 0;
    SimMutex *sm = mutex_get(m);
    sim_yield("m");
    if (sm->owner && sm->owner->state != T_DONE && sm->owner->state != T_FREE) return EBUSY;   /* also when the caller itself holds it */
    sm->owner = cur; if (sim_proc_race(cur->p)) race_acquire(cur->id, m);
    return 0;
}

/* ---- further pthread objects a refactoring may reach for: once, condition variables, semaphores, spin locks ----
 * Their state is kept by the kernel, keyed by (address, pid): the objects themselves live in image statics, which are only
 * in place while their own process is loaded (the scheduler evaluates wake-up conditions with whatever process ran last),
 * and pids are never reused, so a new process never inherits the state of a dead one.  No real pthread function ever looks
 * at these objects: every operation on them is wrapped. */
typedef struct SimSync { void *addr; int pid; int kind; long val; uint64_t gen; } SimSync;   /* kind 1 once (val 0 new, 1 running, 2 done), 2 cond (gen = signals so far), 3 sem (val = count) */
#define MAXSYNC 2048
static SimSync syncs[MAXSYNC]; static int nsyncs, sync_next;
static SimSync *sync_obj(void *addr, int kind) {
    int pid = img_identity(cur->p)->pid;
    for (int i = 0; i < nsyncs; i++) if (syncs[i].addr == addr && syncs[i].pid == pid && syncs[i].kind == kind) return &syncs[i];
    SimSync *o;
    if (nsyncs < MAXSYNC) o = &syncs[nsyncs++];
    else {   /* recycle the entry of a process that no longer exists */
        o = NULL;
        for (int k = 0; k < MAXSYNC && !o; k++) { SimSync *c = &syncs[(sync_next + k) % MAXSYNC]; SimProc *q = sim_find_pid(c->pid); if (!q || !q->alive) { o = c; sync_next = (sync_next + k + 1) % MAXSYNC; } }
        if (!o) abort();
    }
    memset(o, 0, sizeof *o); o->addr = addr; o->pid = pid; o->kind = kind; return o;
}
static bool rdy_once(SimTask *t) { return ((SimSync *)t->wait_obj)->val == 2; }
int __real_pthread_once(pthread_once_t *, void (*)(void));
int __wrap_pthread_once(pthread_once_t *oc, void (*fn)(void)) {
    if (!cur) return __real_pthread_once(oc, fn);
    SimSync *o = sync_obj(oc, 1);
    sim_yield("o");
    if (o->val == 0) { o->val = 1; fn(); o->val = 2; if (sim_proc_race(cur->p)) race_release(cur->id, oc); return 0; }
    if (o->val == 1) block_on(rdy_once, o, "O");
    if (sim_proc_race(cur->p)) race_acquire(cur->id, oc);
    return 0;
}
static bool rdy_cond(SimTask *t) { return ((SimSync *)t->wait_obj)->gen > (uint64_t)(uintptr_t)t->wait_obj2; }
static int cond_wait_common(pthread_cond_t *c, pthread_mutex_t *m, uint64_t deadline_us) {
    SimSync *o = sync_obj(c, 2);
    uint64_t seen = o->gen;
    k_mutex_unlock(m);
    cur->wait_obj2 = (void *)(uintptr_t)seen;
    if (deadline_us) { cur->timed = true; cur->wake_at = deadline_us; }
    block_on(rdy_cond, o, "C");
    cur->timed = false;
    bool signalled = o->gen > seen;
    k_mutex_lock(m);
    return signalled ? 0 : ETIMEDOUT;
}
int __wrap_pthread_cond_init(pthread_cond_t *c, const pthread_condattr_t *a) { (void)a; if (cur) sync_obj(c, 2)->gen = 0; return 0; }
int __wrap_pthread_cond_destroy(pthread_cond_t *c) { (void)c; return 0; }
int __wrap_pthread_cond_wait(pthread_cond_t *c, pthread_mutex_t *m) { if (!cur) return 0; return cond_wait_common(c, m, 0); }
int __wrap_pthread_cond_timedwait(pthread_cond_t *c, pthread_mutex_t *m, const struct timespec *abst) {
    if (!cur) return 0;
    uint64_t abs_us = (uint64_t)abst->tv_sec * 1000000 + (uint64_t)abst->tv_nsec / 1000, base = epoch_base * 1000000;
    uint64_t dl = abs_us > base ? abs_us - base : 0; if (dl <= now_us) dl = now_us + 1;
    return cond_wait_common(c, m, dl);
}
/* (a signal wakes every waiter whose wait started before it: spurious wake-ups are allowed by POSIX, lost ones are not) */
int __wrap_pthread_cond_signal(pthread_cond_t *c) { if (!cur) return 0; sync_obj(c, 2)->gen++; sim_yield("c"); return 0; }
int __wrap_pthread_cond_broadcast(pthread_cond_t *c) { if (!cur) return 0; sync_obj(c, 2)->gen++; sim_yield("c"); return 0; }
#include <semaphore.h>
static bool rdy_sem(SimTask *t) { return ((SimSync *)t->wait_obj)->val > 0; }
int __wrap_sem_init(sem_t *sm, int pshared, unsigned v) { (void)pshared; if (cur) sync_obj(sm, 3)->val = (long)v; return 0; }
int __wrap_sem_destroy(sem_t *sm) { (void)sm; return 0; }
int __wrap_sem_post(sem_t *sm) { if (!cur) return 0; if (sim_proc_race(cur->p)) race_release(cur->id, sm); sync_obj(sm, 3)->val++; sim_yield("s"); return 0; }
int __wrap_sem_wait(sem_t *sm) {
    if (!cur) return 0;
    SimSync *o = sync_obj(sm, 3); sim_yield("s");
    while (o->val <= 0) block_on(rdy_sem, o, "S");
    o->val--; if (sim_proc_race(cur->p)) race_acquire(cur->id, sm);
    return 0;
}
int __wrap_sem_trywait(sem_t *sm) { if (!cur) return 0; SimSync *o = sync_obj(sm, 3); sim_yield("s"); if (o->val <= 0) { errno = EAGAIN; return -1; } o->val--; if (sim_proc_race(cur->p)) race_acquire(cur->id, sm); return 0; }
int __wrap_pthread_spin_lock(pthread_spinlock_t *l) { if (!cur) return 0; return k_mutex_lock((void *)l); }
int __wrap_pthread_spin_trylock(pthread_spinlock_t *l) { if (!cur) return 0; return __wrap_pthread_mutex_trylock((pthread_mutex_t *)(void *)l); }
int __wrap_pthread_spin_unlock(pthread_spinlock_t *l) { if (!cur) return 0; return k_mutex_unlock((void *)l); }
#include <sched.h>
int __real_sched_yield(void);
int __wrap_sched_yield(void) { if (!cur) return __real_sched_yield(); sim_yield("y"); return 0; }   /* a spin-wait that yields must let the lock holder run */
pthread_t __real_pthread_self(void);
pthread_t __wrap_pthread_self(void) { if (!cur) return __real_pthread_self(); return (pthread_t)(uintptr_t)cur; }
int __real_sigprocmask(int, const sigset_t *, sigset_t *);
int __wrap_sigprocmask(int how, const sigset_t *s, sigset_t *o) { if (!cur) return __real_sigprocmask(how, s, o); if (o) sigemptyset(o); return 0; }
int __wrap_pthread_sigmask(int how, const sigset_t *s, sigset_t *o) { (void)how; (void)s; if (o) sigemptyset(o); return 0; }
pid_t __real_wait(int *);
pid_t __wrap_wait(int *st) {
    if (!cur) return __real_wait(st);
    SimProc *me = img_identity(cur->p);
    for (;;) {
        bool any = false;
        for (int i = 0; i < nprocs; i++) if (procs[i].ppid == me->pid && !procs[i].reaped) { any = true; if (proc_waitable(&procs[i])) return k_waitpid(procs[i].pid, st, 0); }
        if (!any) { errno = ECHILD; return -1; }
        sim_sleep_us(10);
    }
}

/* batch families spawn hundreds of short-lived processes per run: let the table reuse the slots of processes that are
 * dead, have no task left and that the caller no longer refers to */
void sim_forget_dead(void) {
    for (int i = 0; i < nprocs; i++) {
        SimProc *p = &procs[i];
        if (p->alive || p->in_vfork_child || p->reusable) continue;
        bool busy = false;
        for (int t = 0; t < MAXT; t++) if (tasks[t].state != T_FREE && tasks[t].state != T_DONE && tasks[t].p == p) busy = true;
        if (busy) continue;
        for (int j = 0; j < NIMAGES; j++) if (images[j].owner == p) images[j].owner = NULL;
        if (p->fout) { fclose(p->fout); fclose(p->ferr); p->fout = p->ferr = NULL; }
        free(p->imgdata); p->imgdata = NULL;
        p->reusable = true; p->reaped = true; p->zombie = false; p->pid = -1;
    }
}
