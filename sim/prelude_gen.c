/* prelude_gen: prints the C text that nanoc's transpiler emits into EVERY native program for string
 * formatting, string builtins and array helpers (src/stdlib_runtime.c: generate_string_operations +
 * generate_math_utility_builtins), by calling the tree's own generator functions.  The text is then
 * compiled into nanosim_rt and driven there (operations em_*).  Only the StringBuilder the generators
 * write into is the harness's. */
#include "stdlib_runtime.h"
#include <stdio.h>
#include <stdlib.h>
#include <string.h>
StringBuilder *sb_create(void) { StringBuilder *s = calloc(1, sizeof *s); s->capacity = 1 << 16; s->buffer = malloc((size_t)s->capacity); s->buffer[0] = 0; return s; }
void sb_append(StringBuilder *sb, const char *str) {
    int n = (int)strlen(str);
    while (sb->length + n + 1 > sb->capacity) { sb->capacity *= 2; sb->buffer = realloc(sb->buffer, (size_t)sb->capacity); }
    memcpy(sb->buffer + sb->length, str, (size_t)n + 1); sb->length += n;
}
int main(void) {
    StringBuilder *s = sb_create();
    generate_string_operations(s);
    generate_math_utility_builtins(s);
    fwrite(s->buffer, 1, (size_t)s->length, stdout);
    return 0;
}
