/* Per-image inter-object shim (DESIGN.md 2.3): the image is linked with
 * ld -r --wrap=<sym>, so calls that cross object files inside the image come
 * here first.  Each wrapper calls the real function and a harness callback.
 * The file is compiled once per image and localised with the image. */
#include <stdint.h>
#include <stdbool.h>
#include <stddef.h>

#ifndef IMG_NANOC
uint32_t __real_isa_decode(const uint8_t *, uint32_t, void *);
void sim_hook_instr(void);
uint32_t __wrap_isa_decode(const uint8_t *c, uint32_t n, void *o) {
    sim_hook_instr();
    return __real_isa_decode(c, n, o);
}

void __real_vm_init(void *, const void *);
void sim_hook_vm_init(void *);
void __wrap_vm_init(void *vm, const void *m) {
    __real_vm_init(vm, m);
    sim_hook_vm_init(vm);
}

void __real_vm_destroy(void *);
void sim_hook_vm_destroy(void *);
void __wrap_vm_destroy(void *vm) {
    sim_hook_vm_destroy(vm);
    __real_vm_destroy(vm);
}

int __real_vm_execute(void *);
void sim_hook_vm_execute(void *, int phase, int result);
int __wrap_vm_execute(void *vm) {
    sim_hook_vm_execute(vm, 0, 0);
    int r = __real_vm_execute(vm);
    sim_hook_vm_execute(vm, 1, r);
    return r;
}

void *__real_nvm_deserialize(const uint8_t *, uint32_t);
void sim_hook_deserialize(const uint8_t *, uint32_t, void *);
void *__wrap_nvm_deserialize(const uint8_t *d, uint32_t n) {
    void *m = __real_nvm_deserialize(d, n);
    sim_hook_deserialize(d, n, m);
    return m;
}

/* NvmVerifyResult is returned by value (struct with bool + message); we only
 * count calls, so forward through a tail call-compatible signature. */
typedef struct { bool ok; uint32_t a, b; char msg[256]; } ShimVerify;
void sim_hook_verify(void);
/* keep ABI-agnostic: do not wrap by value, just note the call */

bool __real_vm_ffi_call(const void *, uint32_t, void *, int, void *, void *, char *, size_t);
void sim_hook_ffi(int side, int phase, const void *module, uint32_t idx, void *args, int argc, void *result, bool ok);
bool __wrap_vm_ffi_call(const void *m, uint32_t idx, void *args, int argc, void *res, void *heap, char *e, size_t es) {
    sim_hook_ffi(1, 0, m, idx, args, argc, NULL, true);
    bool ok = __real_vm_ffi_call(m, idx, args, argc, res, heap, e, es);
    sim_hook_ffi(1, 1, m, idx, args, argc, res, ok);
    return ok;
}

bool __real_vm_ffi_call_cop(void *, const void *, uint32_t, void *, int, void *, void *, char *, size_t);
bool __wrap_vm_ffi_call_cop(void *vm, const void *m, uint32_t idx, void *args, int argc, void *res, void *heap, char *e, size_t es) {
    sim_hook_ffi(0, 0, m, idx, args, argc, NULL, true);
    bool ok = __real_vm_ffi_call_cop(vm, m, idx, args, argc, res, heap, e, es);
    sim_hook_ffi(0, 1, m, idx, args, argc, res, ok);
    return ok;
}
#endif
