/* Family "cop": real nano_vm --isolate-ffi + real nano_cop over simulated pipes.
 *   sub c15: transparency under legal I/O perturbation (vs in-process FFI run)
 *   sub c16: fault matrix over protocol steps x fault kinds, injected at the
 *            co-process' system-call seam                     (DESIGN.md section 4) */
#include "nanosim.h"
#include <stdlib.h>
#include <string.h>
#include <errno.h>
#include <signal.h>
#include <sys/wait.h>
#include "nanovm/cop_protocol.h"
#include "runtime/dyn_array.h"

/* ======================================================================
 * identity / generator externs resolved by dlsym(RTLD_DEFAULT) from both the
 * in-process path and the co-process (workload devices, not repo code)
 * ====================================================================== */
int64_t sim_id_int(int64_t x) { return x; }
double sim_id_float(double x) { return x; }
int64_t sim_id_bool(int64_t x) { return x; }
const char *sim_id_str(const char *s) { return s; }
DynArray *sim_id_arr(DynArray *a) { return a; }
DynArray *sim_id_farr(DynArray *a) { return a; }
DynArray *sim_id_sarr(DynArray *a) { return a; }
int64_t sim_void(int64_t x) { (void)x; return 0; }
int64_t sim_mix2(const char *a, const char *b, int64_t n) { uint64_t h = 1469598103934665603ull ^ (uint64_t)n; for (const char *p = a; *p; p++) { h ^= (uint8_t)*p; h *= 1099511628211ull; } h ^= 0xff; for (const char *p = b; *p; p++) { h ^= (uint8_t)*p; h *= 1099511628211ull; } return (int64_t)(h & 0x7fffffffffffffffull); }
int64_t sim_mix(int64_t a, const char *s, int64_t b, int64_t c) {
    uint64_t h = 1469598103934665603ull ^ (uint64_t)a;
    for (const char *p = s; *p; p++) { h ^= (uint8_t)*p; h *= 1099511628211ull; }
    h ^= (uint64_t)b * 31 + (uint64_t)c * 131;
    return (int64_t)(h & 0x7fffffffffffffffull);
}
/* kills the simulated process that executes the extern call (standalone: the VM; isolated: the co-process) */
extern void simk_kill_self(int sig);
int64_t sim_die(int64_t code) { (void)code; simk_kill_self(9); return 0; }
/* opaque handles cross the pipe as 64-bit values */
/* A handle is only meaningful in the process that issued it (think FILE*): using it in another process is a wild
 * pointer dereference there, modelled as SIGSEGV of the process that executes the call. */
static struct { int64_t h; int pid; } handles[4096]; static int nhandles;
int64_t sim_handle_new(int64_t x) {
    int64_t h = (int64_t)0x7f0000000000ll + x * 4096 + 8;
    SimProc *p = sim_cur_proc();
    if (p && nhandles < 4096) { handles[nhandles].h = h; handles[nhandles].pid = p->pid; nhandles++; }
    return h;
}
int64_t sim_handle_get(int64_t h) {
    SimProc *p = sim_cur_proc();
    if (p) {
        bool mine = false;
        for (int i = 0; i < nhandles; i++) if (handles[i].h == h && handles[i].pid == p->pid) mine = true;
        if (!mine) { simk_kill_self(11); return 0; }
    }
    return (h - 0x7f0000000000ll - 8) / 4096;
}
/* mixed signature: the float arrives as its bit pattern in a general register, the result is returned the same way */
int64_t sim_mixf(int64_t a, int64_t fbits, const char *s) { double f; memcpy(&f, &fbits, 8); double r = (double)a * 0.5 + f + (double)strlen(s); int64_t rb; memcpy(&rb, &r, 8); return rb; }
char *sim_mkstr(int64_t n) {
    if (n < 0) n = 0;
    char *s = __real_malloc((size_t)n + 1);
    for (int64_t i = 0; i < n; i++) s[i] = (char)(33 + (i * 7 + n) % 90);
    s[n] = 0; return s;
}
extern DynArray *dyn_array_new(ElementType); extern DynArray *dyn_array_push_int(DynArray *, int64_t);
DynArray *sim_mkarr(int64_t n) {
    DynArray *a = dyn_array_new(ELEM_INT);
    for (int64_t i = 0; i < n; i++) a = dyn_array_push_int(a, i * 3 - n);
    return a;
}

/* ======================================================================
 * C15 workload generator
 * ====================================================================== */
static const char *PRELUDE =
"opaque type Handle\n"
"extern fn sim_handle_new(x: int) -> Handle\n"
"extern fn sim_handle_get(h: Handle) -> int\n"
"extern fn sim_mixf(a: int, f: float, s: string) -> float\n"
"extern fn sim_id_int(x: int) -> int\n"
"extern fn sim_id_float(x: float) -> float\n"
"extern fn sim_id_bool(x: bool) -> bool\n"
"extern fn sim_id_str(s: string) -> string\n"
"extern fn sim_id_arr(a: array<int>) -> array<int>\n"
"extern fn sim_id_farr(a: array<float>) -> array<float>\n"
"extern fn sim_id_sarr(a: array<string>) -> array<string>\n"
"extern fn sim_mix(a: int, s: string, b: bool, c: int) -> int\n"
"extern fn sim_void(a: int) -> void\n"
"extern fn sim_mix2(a: string, b: string, n: int) -> int\n"
"extern fn sim_mkstr(n: int) -> string\n"
"extern fn sim_mkarr(n: int) -> array<int>\n"
"extern fn strlen(s: string) -> int\n"
"extern fn sqrt(x: float) -> float\n"
"extern fn pow(x: float, y: float) -> float\n"
"fn mk(n: int, c: int) -> string {\n"
"    if (== n 0) { return \"\" }\n"
"    let mut s: string = (+ (string_from_char (+ 33 (% c 90))) (+ (string_from_char (+ 1 (% (* c 7) 254))) (string_from_char (+ 40 (% c 50)))))\n"
"    if (< n 3) { return (str_substring s 0 n) }\n"
"    while (<= (* 2 (str_length s)) n) { set s (+ s s) }\n"
"    let rest: int = (- n (str_length s))\n"
"    if (> rest 0) { set s (+ s (str_substring s 0 rest)) }\n"
"    return s\n"
"}\n"
"fn sg(s: string) -> string {\n"
"    let n: int = (str_length s)\n"
"    if (== n 0) { return \"0:\" }\n"
"    return (+ (int_to_string n) (+ \":\" (+ (int_to_string (char_at s 0)) (+ \",\" (+ (int_to_string (char_at s (/ n 2))) (+ \",\" (int_to_string (char_at s (- n 1)))))))))\n"
"}\n";

typedef struct Step { int kind; long a, b; } Step;
enum { ST_INT = 0, ST_FLOAT, ST_BOOL, ST_STR, ST_STRLEN, ST_ARR, ST_FARR, ST_SARR, ST_MIX, ST_VOID, ST_MKSTR, ST_MKARR, ST_SQRT, ST_OPAQUE, ST_MIXF, ST_LOOP, ST_MIX2, ST_NKINDS };
static const char *st_name[] = { "id_int", "id_float", "id_bool", "id_str", "strlen", "id_arr", "id_farr", "id_sarr", "mix", "void", "mkstr", "mkarr", "sqrt_pow", "opaque", "mixf", "loop", "mix2" };
static const long STRLENS[] = { 0, 1, 2, 255, 256, 4095, 4096, 8100, 8185, 8186, 8187, 8188, 8190, 8192, 8195, 16384, 65536 };
static const long RESLENS[] = { 0, 1, 4089, 4090, 4091, 4092, 4096, 8200, 65536, 1048570, 1048571, 1048572, 1048580, 2000000 };
static const long ARRLENS[] = { 0, 1, 2, 100, 454, 455, 456, 1000, 20000, 116507, 116509, 200000 };
static const char *INTS[] = { "0", "1", "(- 0 1)", "42", "9223372036854775807", "(- (- 0 9223372036854775807) 1)", "4294967296", "(- 0 2147483649)",
                               "2147483647", "2147483648", "(- 0 2147483648)", "4294967295", "65535", "65536", "255", "(- 0 32769)" };
#define NINTS 16
static const char *FLOATS[] = { "0.0", "(- 0.0 0.0)", "1.5", "(- 0.0 2.25)", "(sqrt (- 0.0 1.0))", "(pow 10.0 400.0)", "(- 0.0 (pow 10.0 400.0))", "(pow 10.0 (- 0.0 320.0))", "3.141592653589793" };

static void emit_step(Buf *b, int i, Step *s) {
    char pre[32]; snprintf(pre, sizeof pre, "\"T:%d:\"", i);
    switch (s->kind) {
    case ST_INT: buf_printf(b, "    (println (+ %s (int_to_string (sim_id_int %s))))\n", pre, INTS[s->a]); break;
    case ST_FLOAT: buf_printf(b, "    (print %s)\n    (println (sim_id_float %s))\n", pre, FLOATS[s->a]); break;
    case ST_BOOL: buf_printf(b, "    (print %s)\n    (println (sim_id_bool %s))\n", pre, s->a ? "true" : "false"); break;
    case ST_STR: buf_printf(b, "    (println (+ %s (sg (sim_id_str (mk %ld %ld)))))\n", pre, s->a, s->b); break;
    case ST_STRLEN: buf_printf(b, "    (println (+ %s (int_to_string (strlen (mk %ld %ld)))))\n", pre, s->a, s->b); break;
    case ST_ARR:
        buf_printf(b, "    let mut a%d: array<int> = []\n    let mut i%d: int = 0\n    while (< i%d %ld) { set a%d (array_push a%d (- (* i%d %ld) 7)) set i%d (+ i%d 1) }\n", i, i, i, s->a, i, i, i, s->b + 1, i, i);
        buf_printf(b, "    let r%d: array<int> = (sim_id_arr a%d)\n    (println (+ %s (int_to_string (array_length r%d))))\n", i, i, pre, i);
        if (s->a > 0) buf_printf(b, "    (println (+ %s (int_to_string (+ (at r%d 0) (at r%d %ld)))))\n", pre, i, i, s->a - 1);
        break;
    case ST_FARR:
        buf_printf(b, "    let mut a%d: array<float> = []\n    let mut i%d: int = 0\n    while (< i%d %ld) { set a%d (array_push a%d (* 0.5 (cast_float i%d))) set i%d (+ i%d 1) }\n", i, i, i, s->a, i, i, i, i, i);
        buf_printf(b, "    let r%d: array<float> = (sim_id_farr a%d)\n    (println (+ %s (int_to_string (array_length r%d))))\n", i, i, pre, i);
        if (s->a > 0) buf_printf(b, "    (print %s)\n    (println (at r%d %ld))\n", pre, i, s->a - 1);
        break;
    case ST_SARR:
        buf_printf(b, "    let mut a%d: array<string> = []\n    let mut i%d: int = 0\n    while (< i%d %ld) { set a%d (array_push a%d (mk (%% (+ i%d %ld) 40) i%d)) set i%d (+ i%d 1) }\n", i, i, i, s->a, i, i, i, s->b, i, i, i);
        buf_printf(b, "    let r%d: array<string> = (sim_id_sarr a%d)\n    (println (+ %s (int_to_string (array_length r%d))))\n", i, i, pre, i);
        if (s->a > 0) buf_printf(b, "    (println (+ %s (sg (at r%d %ld))))\n", pre, i, s->a - 1);
        break;
    case ST_MIX: buf_printf(b, "    (println (+ %s (int_to_string (sim_mix %s (mk %ld 5) %s %ld))))\n", pre, INTS[s->a % NINTS], s->b, (s->a & 1) ? "true" : "false", s->a * 977); break;
    case ST_MIX2: buf_printf(b, "    (println (+ %s (int_to_string (sim_mix2 (mk %ld 7) (mk %ld 11) %ld))))\n", pre, s->a, s->b, s->a + s->b); break;
    case ST_VOID: buf_printf(b, "    unsafe { (sim_void %ld) }\n    (println (+ %s \"void-ok\"))\n", s->a, pre); break;
    case ST_MKSTR: buf_printf(b, "    (println (+ %s (sg (sim_mkstr %ld))))\n", pre, s->a); break;
    case ST_MKARR:
        buf_printf(b, "    let r%d: array<int> = (sim_mkarr %ld)\n    (println (+ %s (int_to_string (array_length r%d))))\n", i, s->a, pre, i);
        if (s->a > 0) buf_printf(b, "    (println (+ %s (int_to_string (at r%d %ld))))\n", pre, i, s->a - 1);
        break;
    case ST_OPAQUE: buf_printf(b, "    let h%d: Handle = (sim_handle_new %ld)\n    (println (+ %s (int_to_string (sim_handle_get h%d))))\n", i, s->a, pre, i); break;
    case ST_MIXF: buf_printf(b, "    (print %s)\n    (println (sim_mixf %s %s (mk %ld 3)))\n", pre, INTS[s->a % NINTS], FLOATS[s->b % 9], (s->a * 37) % 300); break;
    case ST_LOOP: buf_printf(b, "    let mut lk%d: int = 0\n    let mut la%d: int = 0\n    while (< lk%d %ld) {\n        set la%d (+ la%d (sim_id_int (- 0 lk%d)))\n        set lk%d (+ lk%d 1)\n    }\n    (println (+ %s (int_to_string la%d)))\n", i, i, i, s->a, i, i, i, i, i, pre, i); break;
    case ST_SQRT: buf_printf(b, "    (print %s)\n    (println (sqrt %s))\n    (print %s)\n    (println (pow %s 2.0))\n", pre, FLOATS[s->a], pre, FLOATS[s->b]); break;
    }
}

typedef struct CPlan {
    char sub[8];
    int nsteps; Step st[12];
    /* c16 */
    char prog[32]; int tok;
    int fstep, fk, fkind;      /* fault step class, call index k (1-based), fault kind */
    int linger;                /* after a garbled reply the co-process ignores EOF/SHUTDOWN and must be terminated by the VM */
    int exec_missing;
} CPlan;

static void gen_src(CPlan *P, Buf *src) {
    buf_printf(src, "%s", PRELUDE);
    buf_printf(src, "fn main() -> int {\n    (println \"T:begin\")\n");
    for (int i = 0; i < P->nsteps; i++) emit_step(src, i, &P->st[i]);
    buf_printf(src, "    (println \"T:end\")\n    return 0\n}\n");
    buf_put(src, "", 1); src->len--;
}

/* ---------------- c16 fault matrix ---------------- */
enum { FS_BEFORE_READY = 0, FS_AFTER_READY, FS_REQ_READ, FS_BEFORE_REPLY, FS_MID_REPLY, FS_EXEC_FAIL, FS_NSTEPS };
static const char *fs_name[] = { "before_ready", "after_ready", "on_request_read", "before_reply", "mid_reply", "exec_fail" };
enum { FK_EXIT0 = 0, FK_EXIT1, FK_KILL, FK_CLOSE_IN, FK_CLOSE_OUT, FK_SHORT_HDR, FK_BAD_VERSION, FK_BAD_TYPE, FK_OVERSIZE,
       FK_SHORT_PAYLOAD, FK_UNDEC_STRLEN, FK_UNDEC_ARRCOUNT, FK_UNDEC_TAG, FK_UNDEC_STRLEN_WRAP, FK_UNDEC_NESTED, FK_UNDEC_DEEP, FK_ERR_FMT, FK_NKINDS };
static const char *fk_name[] = { "exit0", "exit1", "sigkill", "close_stdin", "close_stdout", "short_header", "bad_version", "bad_type",
                                 "oversize_len", "short_payload", "undecodable_strlen", "undecodable_arrcount", "unknown_tag",
                                 "undecodable_strlen_wrap", "undecodable_nested_array", "undecodable_deep_nesting", "error_reply_with_conversions" };
typedef struct Cell { int step, kind; } Cell;
static Cell cells[128]; static int ncells;
static void cells_init(void) {
    if (ncells) return;
    int A[] = { FK_EXIT0, FK_EXIT1, FK_KILL, FK_CLOSE_IN, FK_CLOSE_OUT, FK_SHORT_HDR, FK_BAD_VERSION, FK_BAD_TYPE, FK_OVERSIZE };
    int B[] = { FK_EXIT0, FK_EXIT1, FK_KILL, FK_CLOSE_IN, FK_CLOSE_OUT };
    int E[] = { FK_EXIT0, FK_EXIT1, FK_KILL, FK_CLOSE_OUT, FK_SHORT_PAYLOAD };
    for (unsigned i = 0; i < sizeof A / sizeof *A; i++) cells[ncells++] = (Cell){ FS_BEFORE_READY, A[i] };
    for (unsigned i = 0; i < sizeof B / sizeof *B; i++) cells[ncells++] = (Cell){ FS_AFTER_READY, B[i] };
    for (unsigned i = 0; i < sizeof B / sizeof *B; i++) cells[ncells++] = (Cell){ FS_REQ_READ, B[i] };
    for (int k = 0; k < FK_NKINDS; k++) cells[ncells++] = (Cell){ FS_BEFORE_REPLY, k };
    for (unsigned i = 0; i < sizeof E / sizeof *E; i++) cells[ncells++] = (Cell){ FS_MID_REPLY, E[i] };
    cells[ncells++] = (Cell){ FS_EXEC_FAIL, FK_EXIT0 };
}

static void gen_knobs(bool quick) {
    default_knobs();
    static const int pm[] = { 0, 0, 10000, 1000, 100 };
    K.preempt_mean = pm[sim_rndn(5)];
    /* Linux pipes hold at least one page; smaller capacities would create deadlocks no real kernel can produce */
    static const int caps[] = { 65536, 65536, 16384, 4096 };
    K.pipe_cap = caps[sim_rndn(4)]; K.sock_cap = 65536;
    K.short_read_pm = sim_rndn(2) ? (int)sim_rndn(600) : 0;
    K.short_write_pm = sim_rndn(3) == 0 ? (int)sim_rndn(400) : 0;
    K.eintr_pm = sim_rndn(3) == 0 ? (int)sim_rndn(150) : 0;
    K.zombie_delay_us = sim_rndn(2) ? (int)sim_rndn(300) : 0;
    K.stack_mode = sim_rndn(3) == 0 ? 1 + (int)sim_rndn(256) : 0;
    K.max_steps = quick ? 4000000 : 30000000; K.max_blocks = 2000000000ull;
}
static void plan_gen(CPlan *P, uint64_t seed, const RunOpts *o) {
    memset(P, 0, sizeof *P);
    bool quick = strcmp(o->tier, "quick") == 0;
    snprintf(P->sub, sizeof P->sub, "%s", o->sub ? o->sub : "c15");
    sim_seed(seed);
    gen_knobs(quick);
    if (strcmp(P->sub, "c16") == 0) {
        cells_init();
        Cell c = cells[seed % (uint64_t)ncells];     /* every cell is visited round-robin; the rest is seeded */
        P->fstep = c.step; P->fkind = c.kind; P->fk = 1 + (int)sim_rndn(3);
        /* size class of the faulted call: copbig's calls need heap buffers for request and reply */
        { uint32_t q = sim_rndn(6); snprintf(P->prog, sizeof P->prog, "%s", q < 2 ? "copbig" : q == 2 ? "cophandle" : "copcalls"); } P->tok = (int)sim_rndn(8);
        /* only after a COMPLETE (if garbled) message: a peer that sends half a message and then stalls with the pipe
         * open cannot be told from a slow peer and is outside the property's fault list */
        P->linger = ((c.kind >= FK_BAD_VERSION && c.kind != FK_SHORT_PAYLOAD && c.kind != FK_UNDEC_TAG && c.kind != FK_ERR_FMT) || c.kind == FK_CLOSE_IN || c.kind == FK_CLOSE_OUT) && sim_rndn(3) == 0;   /* a co-process that closes its pipes need not be dying: with linger it closes BOTH and stays alive (one pipe left open and unread would be the silent-stall case that is out of scope) */
        return;
    }
    /* c15: a small pool of generated programs per tier so that compile cost is shared by many schedules */
    uint32_t pool = quick ? 96 : 1500;
    uint64_t pseed = seed % pool;
    uint64_t save = sim_rnd();
    sim_seed(0xC15000 + pseed);
    P->nsteps = 2 + (int)sim_rndn(5);
    for (int i = 0; i < P->nsteps; i++) {
        Step *s = &P->st[i]; s->kind = (int)sim_rndn(ST_NKINDS);
        switch (s->kind) {
        case ST_INT: s->a = sim_rndn(NINTS); break;
        case ST_FLOAT: s->a = sim_rndn(9); break;
        case ST_BOOL: s->a = sim_rndn(2); break;
        case ST_STR: case ST_STRLEN: s->a = STRLENS[sim_rndn(sizeof STRLENS / sizeof *STRLENS)]; s->b = sim_rndn(1000); break;
        case ST_ARR: s->a = ARRLENS[sim_rndn(9)]; s->b = sim_rndn(100); break;
        case ST_FARR: s->a = ARRLENS[sim_rndn(8)]; break;
        case ST_SARR: s->a = ARRLENS[sim_rndn(8)]; s->b = sim_rndn(40); break;
        case ST_MIX: s->a = sim_rndn(64); s->b = STRLENS[sim_rndn(sizeof STRLENS / sizeof *STRLENS)]; break;
        case ST_MIX2: { static const long L2[] = { 0, 1, 40, 4000, 4090, 4096, 5000, 8170, 8192, 20000, 65536 }; s->a = L2[sim_rndn(11)]; s->b = L2[sim_rndn(11)]; break; }
        case ST_VOID: s->a = sim_rndn(10); break;
        case ST_MKSTR: s->a = RESLENS[sim_rndn(sizeof RESLENS / sizeof *RESLENS)]; break;
        case ST_MKARR: s->a = ARRLENS[sim_rndn(sizeof ARRLENS / sizeof *ARRLENS)]; break;
        case ST_SQRT: s->a = sim_rndn(9); s->b = sim_rndn(9); break;
        case ST_OPAQUE: s->a = sim_rndn(1000000); break;
        case ST_MIXF: s->a = sim_rndn(64); s->b = sim_rndn(9); break;
        /* many calls in one session: counters, sequence numbers and descriptors that only wrap or run out after tens of thousands of requests */
        case ST_LOOP: s->a = sim_rndn(quick ? 24 : 6) == 0 ? 65500 + (long)sim_rndn(5000) : 100 + (long)sim_rndn(3000); break;
        }
    }
    sim_seed(save);
}
static void plan_print(CPlan *P, uint64_t seed, Buf *b) {
    buf_printf(b, "family cop\nsub %s\nseed %llu\n", P->sub, (unsigned long long)seed);
    knobs_print(b);
    if (strcmp(P->sub, "c16") == 0) {
        buf_printf(b, "prog %s %d\nfault step=%s k=%d kind=%s linger=%d\n", P->prog, P->tok, fs_name[P->fstep], P->fk, fk_name[P->fkind], P->linger);
        return;
    }
    for (int i = 0; i < P->nsteps; i++) buf_printf(b, "call kind=%s a=%ld b=%ld\n", st_name[P->st[i].kind], P->st[i].a, P->st[i].b);
}
static bool plan_parse(CPlan *P, uint64_t *seed, const char *path) {
    FILE *f = __real_fopen(path, "r"); if (!f) return false;
    memset(P, 0, sizeof *P); default_knobs(); strcpy(P->sub, "c15"); P->fstep = -1;
    char line[512];
    while (fgets(line, sizeof line, f)) {
        unsigned long long a; char k1[32], k2[32]; long x, y; int t;
        if (sscanf(line, "seed %llu", &a) == 1) *seed = a;
        else if (sscanf(line, "sub %7s", P->sub) == 1) {}
        else if (strncmp(line, "knob ", 5) == 0) knobs_parse_line(line);
        else if (sscanf(line, "prog %31s %d", k1, &t) == 2) { snprintf(P->prog, sizeof P->prog, "%s", k1); P->tok = t; }
        else if (sscanf(line, "fault step=%31s k=%d kind=%31s linger=%d", k1, &t, k2, &P->linger) >= 3) {
            for (int i = 0; i < FS_NSTEPS; i++) if (!strcmp(fs_name[i], k1)) P->fstep = i;
            for (int i = 0; i < FK_NKINDS; i++) if (!strcmp(fk_name[i], k2)) P->fkind = i;
            P->fk = t;
        } else if (sscanf(line, "call kind=%31s a=%ld b=%ld", k1, &x, &y) == 3 && P->nsteps < 12) {
            for (int i = 0; i < ST_NKINDS; i++) if (!strcmp(st_name[i], k1)) { P->st[P->nsteps].kind = i; P->st[P->nsteps].a = x; P->st[P->nsteps].b = y; P->nsteps++; break; }
        }
    }
    fclose(f);
    return true;
}

/* ======================================================================
 * c16 injector: watches the co-process' system calls
 * ====================================================================== */
static struct Inj {
    CPlan *P; SimProc *vm; bool armed, fired; const char *fired_desc;
    int replies_started;      /* reply headers the cop has begun to write (READY excluded) */
    int reqs_read;            /* request headers the cop has begun to read (INIT excluded) */
    bool ready_sent; int cop_writes, cop_reads; bool expect_payload; uint32_t pay_left; bool in_hdr;
    int reads_after_init;
    bool pending_exit; int pending_code; bool lingered;
} J;
extern void simk_proc_close_fd(SimProc *p, int fd);
static bool is_cop(SimProc *p) { return p->img && strcmp(p->img->name, "nano_cop") == 0 && !p->in_vfork_child; }
/* faults are attached to the FIRST co-process instance; a relaunched one behaves */
static SimProc *first_cop;
static bool is_target(SimProc *p) { if (!is_cop(p)) return false; if (!first_cop) first_cop = p; return p == first_cop; }
/* actions that end the process: encoded return value for the pre_syscall hook */
static int act_process(int kind) {
    switch (kind) {
    case FK_EXIT0: return 256 + 0;
    case FK_EXIT1: return 256 + 1;
    case FK_KILL: return SIGKILL;
    default: return 0;
    }
}
/* the cop's read pattern: header(8) [payload] ... ; count message headers by tracking expected payload */
static uint8_t cw_hdr[COP_HEADER_SIZE]; static int cw_hdr_n; static uint32_t cw_pay_left, cw_pay_total; static int cw_mode; static bool cw_is_ready;
static uint8_t rd_hdr[COP_HEADER_SIZE]; static int rd_hdr_n; static uint32_t rd_pay_left; static int rd_hdrs_done;
static void c16_post_read(SimProc *p, int fd, const void *buf, size_t got) {
    if (fd != 0 || !is_target(p)) return;
    const uint8_t *b = buf;
    for (size_t i = 0; i < got; i++) {
        if (rd_pay_left) { rd_pay_left--; continue; }
        rd_hdr[rd_hdr_n++] = b[i];
        if (rd_hdr_n == COP_HEADER_SIZE) { memcpy(&rd_pay_left, rd_hdr + 4, 4); rd_hdr_n = 0; rd_hdrs_done++; }
    }
}
static int c16_pre_syscall(SimProc *p, const char *name, int fd, size_t n) {
    (void)n;
    if (!is_target(p) || !J.armed) return 0;
    CPlan *P = J.P;
    if (J.pending_exit) { J.pending_exit = false; J.fired = true; if (!P->linger) return 256 + J.pending_code; }
    if (J.fired) {
        /* a lingering co-process neither reads further requests nor notices EOF: it sleeps until it is terminated */
        if (P->linger && (strcmp(name, "read") == 0 || strcmp(name, "write") == 0) && fd <= 1) { J.lingered = true; sim_block_forever(); }
        return 0;
    }
    if (strcmp(name, "read") == 0 && fd == 0 && rd_pay_left == 0 && rd_hdr_n == 0) {
        /* about to read a message header; rd_hdrs_done complete headers so far (INIT is the first) */
        bool hit = false;
        if (P->fstep == FS_AFTER_READY && J.ready_sent && rd_hdrs_done == 1) hit = true;
        if (P->fstep == FS_REQ_READ && rd_hdrs_done == P->fk && J.ready_sent) hit = true;
        if (hit) {
            int a = act_process(P->fkind);
            if (a) { J.fired = true; return a; }
            /* with linger the co-process closes both pipes and then sits there (wedged, or busy with something else): it does not
             * go on to notice the closed descriptor and exit */
            if (P->fkind == FK_CLOSE_IN) { simk_proc_close_fd(p, 0); if (P->linger) simk_proc_close_fd(p, 1); J.fired = true; if (P->linger) { J.lingered = true; sim_block_forever(); } return 0; }
            if (P->fkind == FK_CLOSE_OUT) { simk_proc_close_fd(p, 1); if (P->linger) simk_proc_close_fd(p, 0); J.fired = true; if (P->linger) { J.lingered = true; sim_block_forever(); } return 0; }
        }
    }
    if (strcmp(name, "write") == 0 && fd == 1) {
        bool boundary = cw_hdr_n == 0 && cw_pay_left == 0;
        bool hit = false;
        if (boundary && P->fstep == FS_BEFORE_READY && !J.ready_sent) hit = true;
        if (boundary && P->fstep == FS_BEFORE_REPLY && J.ready_sent && J.replies_started + 1 == P->fk) hit = true;
        if (!boundary && cw_hdr_n == 0 && cw_pay_left == cw_pay_total && P->fstep == FS_MID_REPLY && J.replies_started == P->fk && !cw_is_ready) hit = true;
        if (hit) {
            int a = act_process(P->fkind);
            if (a) { J.fired = true; return a; }
            /* with linger the co-process closes both pipes and then sits there (wedged, or busy with something else): it does not
             * go on to notice the closed descriptor and exit */
            if (P->fkind == FK_CLOSE_IN) { simk_proc_close_fd(p, 0); if (P->linger) simk_proc_close_fd(p, 1); J.fired = true; if (P->linger) { J.lingered = true; sim_block_forever(); } return 0; }
            if (P->fkind == FK_CLOSE_OUT) { simk_proc_close_fd(p, 1); if (P->linger) simk_proc_close_fd(p, 0); J.fired = true; if (P->linger) { J.lingered = true; sim_block_forever(); } return 0; }
            /* message-garbling kinds are applied by the write filter */
        }
    }
    return 0;
}
/* write filter: sees every write on pipes; parse both directions */
static uint8_t vm_hdr[COP_HEADER_SIZE]; static int vm_hdr_n; static uint32_t vm_pay_left;
static long c16_write_filter(SimProc *p, SimFile *f, const uint8_t *buf, size_t n, Buf *repl) {
    (void)f;
    CPlan *P = J.P;
    if (p == J.vm || (J.vm && p->share == J.vm)) {
        /* VM -> cop stream: track message boundaries so we know what the cop is reading */
        for (size_t i = 0; i < n; i++) {
            if (vm_pay_left) { vm_pay_left--; continue; }
            vm_hdr[vm_hdr_n++] = buf[i];
            if (vm_hdr_n == COP_HEADER_SIZE) { memcpy(&vm_pay_left, vm_hdr + 4, 4); vm_hdr_n = 0; }
        }
        return -1;
    }
    if (!is_target(p)) return -1;
    /* cop -> VM: stream parser.  Header bytes are held back until the header is complete, so that it can be
     * rewritten as a whole whatever way the writer's bytes were split over write() calls. */
    size_t i = 0;
    while (i < n) {
        if (cw_pay_left) {
            size_t take = n - i < cw_pay_left ? n - i : cw_pay_left;
            if (cw_mode == 0) buf_put(repl, buf + i, take);
            else if (cw_mode == 2) {   /* deliver half of the payload, then the process exits */
                if (cw_pay_left == cw_pay_total) { buf_put(repl, buf + i, take > 1 ? take / 2 : 0); J.pending_exit = true; J.pending_code = 0; cw_mode = 1; }
            }
            cw_pay_left -= (uint32_t)take; i += take;
            continue;
        }
        cw_hdr[cw_hdr_n++] = buf[i++];
        if (cw_hdr_n < COP_HEADER_SIZE) continue;
        cw_hdr_n = 0;
        uint8_t h[COP_HEADER_SIZE]; memcpy(h, cw_hdr, sizeof h);
        uint8_t type = h[1]; uint32_t plen; memcpy(&plen, h + 4, 4);
        cw_is_ready = type == COP_MSG_READY;
        bool hit = J.armed && !J.fired && !J.pending_exit &&
                   ((P->fstep == FS_BEFORE_READY && cw_is_ready) ||
                    (P->fstep == FS_BEFORE_REPLY && !cw_is_ready && J.replies_started + 1 == P->fk));
        bool mid = J.armed && !J.fired && !J.pending_exit && P->fstep == FS_MID_REPLY && !cw_is_ready && J.replies_started + 1 == P->fk && P->fkind == FK_SHORT_PAYLOAD;
        if (!cw_is_ready) J.replies_started++;
        if (cw_is_ready) J.ready_sent = true;
        cw_pay_left = cw_pay_total = plen; cw_mode = 0;
        if (mid) cw_mode = 2;
        if (!hit) { buf_put(repl, h, sizeof h); continue; }
        switch (P->fkind) {
        case FK_SHORT_HDR: buf_put(repl, h, 3 + (size_t)(P->fk % 4)); J.pending_exit = true; J.pending_code = 0; cw_mode = 1; break;
        case FK_BAD_VERSION: h[0] = (uint8_t)(COP_PROTO_VERSION + 1); buf_put(repl, h, sizeof h); J.fired = true; break;
        case FK_BAD_TYPE: h[1] = 0x7f; buf_put(repl, h, sizeof h); J.fired = true; break;
        case FK_OVERSIZE: { uint32_t big = (uint32_t)COP_MAX_PAYLOAD + 1 + (uint32_t)P->fk; memcpy(h + 4, &big, 4); buf_put(repl, h, sizeof h); J.fired = true; break; }
        case FK_UNDEC_DEEP: {
            /* a reply of ordinary size (about 1 MB, the limit is 16 MB) whose value is an array nested 60 000 * k levels deep */
            uint32_t depth = 60000u * (uint32_t)P->fk, pn = depth * 6 + 9;
            uint8_t *pl = malloc(pn);
            for (uint32_t d = 0; d < depth; d++) { uint8_t *q = pl + (size_t)d * 6; q[0] = TAG_ARRAY; q[1] = TAG_ARRAY; uint32_t one = 1; memcpy(q + 2, &one, 4); }
            pl[(size_t)depth * 6] = TAG_INT; memset(pl + (size_t)depth * 6 + 1, 1, 8);
            h[1] = COP_MSG_FFI_RESULT; memcpy(h + 4, &pn, 4);
            buf_put(repl, h, sizeof h); buf_put(repl, pl, pn); free(pl);
            J.fired = true; cw_mode = 1;
            break; }
        case FK_SHORT_PAYLOAD: case FK_UNDEC_STRLEN: case FK_UNDEC_ARRCOUNT: case FK_UNDEC_TAG: case FK_UNDEC_STRLEN_WRAP: case FK_UNDEC_NESTED: case FK_ERR_FMT: {
            /* replace the whole reply by a hand-made one; the cop's own payload is swallowed */
            uint8_t pl[40]; uint32_t pn = 0;
            h[1] = COP_MSG_FFI_RESULT;
            if (P->fkind == FK_SHORT_PAYLOAD) { uint32_t ann = 64; memcpy(h + 4, &ann, 4); pl[0] = TAG_STRING; uint32_t l = 59; memcpy(pl + 1, &l, 4); memcpy(pl + 5, "abc", 3); pn = 8; J.pending_exit = true; J.pending_code = 0; }
            else if (P->fkind == FK_UNDEC_STRLEN) { pl[0] = TAG_STRING; uint32_t l = 0x7ffffff0; memcpy(pl + 1, &l, 4); memcpy(pl + 5, "abcdefgh", 8); pn = 13; memcpy(h + 4, &pn, 4); J.fired = true; }
            else if (P->fkind == FK_UNDEC_ARRCOUNT) { pl[0] = TAG_ARRAY; pl[1] = TAG_INT; uint32_t cn = 0xFFFFFFFFu; memcpy(pl + 2, &cn, 4); pl[6] = TAG_INT; memset(pl + 7, 1, 8); pn = 15; memcpy(h + 4, &pn, 4); J.fired = true; }
            else if (P->fkind == FK_UNDEC_STRLEN_WRAP) { pl[0] = TAG_STRING; uint32_t l = P->fk == 1 ? 0xFFFFFFFFu : P->fk == 2 ? 0xFFFFFFFBu : 0xFFFFFFF0u; memcpy(pl + 1, &l, 4); memset(pl + 5, 0x42, 11); pn = 16; memcpy(h + 4, &pn, 4); J.fired = true; }
            else if (P->fkind == FK_UNDEC_NESTED) { /* array of 2 whose second element is an array announcing more elements than bytes left */
                pl[0] = TAG_ARRAY; pl[1] = TAG_INT; uint32_t cn = 2; memcpy(pl + 2, &cn, 4); pl[6] = TAG_INT; memset(pl + 7, 2, 8);
                pl[15] = TAG_ARRAY; pl[16] = TAG_STRING; uint32_t c2 = 0x00FFFFFFu; memcpy(pl + 17, &c2, 4); pl[21] = TAG_STRING; pn = 22; memcpy(h + 4, &pn, 4); J.fired = true; }
            else if (P->fkind == FK_ERR_FMT) { /* a well-formed FFI_ERROR whose text (the callee's, i.e. the peer's) contains printf conversions */
                static const char *T[] = { "%s%s%s%s%s%s%s%s%s%s%s%s", "disk 100% full: %s %s %n", "%1000000d%s%s%n%n" };
                const char *t = T[P->fk % 3]; pn = (uint32_t)strlen(t); memcpy(pl, t, pn); h[1] = COP_MSG_FFI_ERROR; memcpy(h + 4, &pn, 4); J.fired = true; }
            else { pl[0] = 0xEE; memset(pl + 1, 0x41, 8); pn = 9; memcpy(h + 4, &pn, 4); J.fired = true; }
            buf_put(repl, h, sizeof h); buf_put(repl, pl, pn);
            cw_mode = 1;
            break; }
        default: buf_put(repl, h, sizeof h); break;   /* process-ending kinds were handled before the write */
        }
    }
    return (long)repl->len;
}

/* ======================================================================
 * run
 * ====================================================================== */
static char *g_src;   /* generated source of the current plan (zygote side) */
static void fam_prepare(uint64_t seed, const RunOpts *o) {
    static CPlan P; uint64_t s = seed;
    if (o->planfile) { if (!plan_parse(&P, &s, o->planfile)) return; }
    else plan_gen(&P, seed, o);
    if (strcmp(P.sub, "c16") == 0) { ref_get(P.prog, P.tok); return; }
    Buf src = {0}; gen_src(&P, &src);
    Prog *pg = prog_get((char *)src.d);
    if (pg && pg->ok) ref_get_blob(pg->key, pg->d, pg->n);
    free(g_src); g_src = (char *)src.d;
}

extern Buf ffi_log[2]; extern uint64_t ffi_calls[2]; extern int ffi_log_on;
static bool buf_eq(Buf *a, Buf *b) { return a->len == b->len && (a->len == 0 || memcmp(a->d, b->d, a->len) == 0); }
static int exit_code_of(int status) { return WIFEXITED(status) ? WEXITSTATUS(status) : 128 + WTERMSIG(status); }
/* first differing "T:<i>:" line index between two outputs, -1 if none */
static int first_diff_step(Buf *a, Buf *b) {
    size_t i = 0, j = 0; int last = -1;
    while (i < a->len || j < b->len) {
        size_t ie = i; while (ie < a->len && a->d[ie] != '\n') ie++;
        size_t je = j; while (je < b->len && b->d[je] != '\n') je++;
        int step = -1; if (ie - i > 2 && a->d[i] == 'T' && a->d[i + 1] == ':') step = atoi((char *)a->d + i + 2);
        if (step >= 0) last = step;
        if (ie - i != je - j || memcmp(a->d + i, b->d + j, ie - i) != 0) {
            if (step < 0 && je - j > 2 && b->d[j] == 'T') step = atoi((char *)b->d + j + 2);
            return step >= 0 ? step : last + 1;
        }
        i = ie + 1; j = je + 1;
    }
    return -1;
}
static const char *size_class(long n) { return n <= 4000 ? "le4000" : n <= 8100 ? "le8100" : n <= 65536 ? "le64K" : n <= 1048000 ? "le1M" : "gt1M"; }

static void run_c15(CPlan *P, uint64_t seed, Result *r) {
    Buf src = {0}; gen_src(P, &src);
    char key[40]; snprintf(key, sizeof key, "g%016llx", (unsigned long long)fnv64((char *)src.d));
    Prog *pg = prog_lookup(key);
    if (!pg || !pg->ok) { strcpy(r->verdict, "skip"); buf_printf(&r->detail, "generated program rejected by the compiler"); return; }
    Ref *ref = ref_lookup_key(key);
    if (!ref || !ref->valid) { strcpy(r->verdict, "skip"); buf_printf(&r->detail, "in-process run crashed or did not finish"); return; }
    SimKnobs saved = K; sim_reset(); K = saved; sim_seed(seed ^ 0xC15C15ull);
    extern int audit_mode; extern uint64_t audit_stride; audit_mode = 1; audit_stride = 257;
    ffi_log_on = 1;
    simfs_put("/sim/p.nvm", pg->d, pg->n);
    static Buf out, err; out.len = err.len = 0;
    static char *av[] = { "nano_vm", "--isolate-ffi", "/sim/p.nvm", NULL };
    SimProc *vm = sim_spawn("nano_vm", "nano_vm", 3, av, &out, &err, 0);
    int rc = sim_run();
    if (rc) { res_violation(r, "C15", "budget:%s", rc == 1 ? "steps" : "fuel"); buf_printf(&r->detail, "run did not reach quiescence (rc=%d)\n", rc); }
    else if (vm->alive) res_violation(r, "C15", "vm-hung");
    else {
        const char *what = NULL;
        if (!buf_eq(&out, &ref->out)) what = "stdout"; else if (exit_code_of(vm->status) != exit_code_of(ref->status)) what = "status";
        if (what) {
            int st = first_diff_step(&ref->out, &out);
            Step *s = st >= 0 && st < P->nsteps ? &P->st[st] : NULL;
            long sz = s ? (s->kind == ST_MIX ? s->b : s->kind == ST_MIX2 ? s->a + s->b : s->a) : 0;
            if (s && (s->kind == ST_ARR || s->kind == ST_FARR || s->kind == ST_MKARR)) sz *= 9;
            if (s && s->kind == ST_SARR) sz *= 30;
            res_violation(r, "C15", "mismatch:%s:%s:%s", what, s ? st_name[s->kind] : "none", s ? size_class(sz) : "-");
            buf_printf(&r->detail, "isolated run differs from in-process run in %s at step %d (%s a=%ld b=%ld): isolated status=%d out=%zuB err=[%.*s] | in-process status=%d out=%zuB\n",
                       what, st, s ? st_name[s->kind] : "?", s ? s->a : 0, s ? s->b : 0, exit_code_of(vm->status), out.len,
                       (int)(err.len > 300 ? 300 : err.len), err.d ? (char *)err.d : "", exit_code_of(ref->status), ref->out.len);
        }
        /* seam: what the callee saw and returned equals what the VM passed and received */
        if (!buf_eq(&ffi_log[0], &ffi_log[1]) && !what) {
            res_violation(r, "C15", "seam-mismatch");
            buf_printf(&r->detail, "argument/result values differ across the pipe: vm-side log %zuB (%llu calls) callee-side log %zuB (%llu calls)\n",
                       ffi_log[0].len, (unsigned long long)ffi_calls[0], ffi_log[1].len, (unsigned long long)ffi_calls[1]);
        }
    }
    for (int i = 0; i < sim_nprocs(); i++) { SimProc *p = sim_proc_at(i); if (is_cop(p) && p->alive) res_violation(r, "C16", "orphan-cop"); }
    extern uint64_t audit_fail; extern char audit_msg[];
    if (audit_fail) { res_violation(r, "C14", "audit:%s", audit_msg); }
    { extern uint64_t alloc_double_free; if (alloc_double_free) res_violation(r, "C15", "double-free"); }
    r->nontrivial = ffi_calls[1] > 0;
    snprintf(r->class_key, sizeof r->class_key, "%s/%016llx", key, (unsigned long long)sim_sched_hash());
    probe(r, "ffi_calls_vm_side", ffi_calls[0]); probe(r, "ffi_calls_cop_side", ffi_calls[1]); probe(r, "seam_bytes_compared", ffi_log[0].len);
    for (int i = 0; i < P->nsteps; i++) { char nm[40]; snprintf(nm, sizeof nm, "step_%s", st_name[P->st[i].kind]); probe(r, nm, 1); break; }
    buf_free(&src);
}

static void run_c16(CPlan *P, uint64_t seed, Result *r) {
    Module *m = corpus_find(P->prog, P->tok);
    Ref *ref = ref_lookup(P->prog, P->tok);
    if (!m || !ref || !ref->valid) { strcpy(r->verdict, "skip"); return; }
    SimKnobs saved = K; sim_reset(); K = saved; sim_seed(seed ^ 0xC16C16ull);
    first_cop = NULL; memset(&J, 0, sizeof J); J.P = P; J.armed = P->fstep >= 0 && P->fstep != FS_EXEC_FAIL;
    rd_hdr_n = 0; rd_pay_left = 0; rd_hdrs_done = 0; vm_hdr_n = 0; vm_pay_left = 0; cw_hdr_n = 0; cw_pay_left = cw_pay_total = 0; cw_mode = 0; cw_is_ready = false;
    if (P->fstep == FS_EXEC_FAIL) sim_exec_set_missing("nano_cop", true); else sim_exec_set_missing("", false);
    sim_hooks.pre_syscall = c16_pre_syscall; sim_hooks.write_filter = c16_write_filter; sim_hooks.post_read = c16_post_read;
    simfs_put("/sim/p.nvm", m->d, m->n);
    static Buf out, err; out.len = err.len = 0;
    static char *av[] = { "nano_vm", "--isolate-ffi", "/sim/p.nvm", NULL };
    SimProc *vm = sim_spawn("nano_vm", "nano_vm", 3, av, &out, &err, 0);
    J.vm = vm;
    int rc = sim_run();
    const char *cell = fs_name[P->fstep < 0 ? 0 : P->fstep];
    bool weak = P->fkind == FK_UNDEC_TAG;    /* decodes as void: only crash/hang/orphan clauses apply */
    if (rc) { res_violation(r, "C16", "hang:%s:%s", cell, fk_name[P->fkind]); buf_printf(&r->detail, "no quiescence (rc=%d): VM blocked or spinning after the co-process fault\n", rc); }
    else if (vm->alive) { res_violation(r, "C16", "vm-blocked:%s:%s", cell, fk_name[P->fkind]); buf_printf(&r->detail, "VM still blocked at quiescence although the co-process is gone\n"); }
    else if (WIFSIGNALED(vm->status)) {
        res_violation(r, "C16", "vm-killed-by-signal:%d", WTERMSIG(vm->status));
        buf_printf(&r->detail, "nano_vm died by signal %d after fault %s/%s k=%d (fired=%d)\n", WTERMSIG(vm->status), cell, fk_name[P->fkind], P->fk, J.fired);
    } else if (!weak) {
        int ec = WEXITSTATUS(vm->status);
        if (ec == 0) {
            if (!buf_eq(&out, &ref->out)) { res_violation(r, "C16", "exit0-wrong-output:%s:%s", cell, fk_name[P->fkind]); buf_printf(&r->detail, "exit 0 but output differs from the fault-free run (%zuB vs %zuB)\n", out.len, ref->out.len); }
        } else {
            if (err.len == 0) { res_violation(r, "C16", "silent-failure:%s:%s", cell, fk_name[P->fkind]); buf_printf(&r->detail, "exit %d without any error text\n", ec); }
            if (out.len > ref->out.len || (out.len && memcmp(out.d, ref->out.d, out.len) != 0)) {
                res_violation(r, "C16", "output-not-prefix:%s:%s", cell, fk_name[P->fkind]);
                buf_printf(&r->detail, "program output before the failure is not a prefix of the fault-free output: got [%.*s] want prefix of [%.*s]\n",
                           (int)(out.len > 200 ? 200 : out.len), (char *)out.d, (int)(ref->out.len > 200 ? 200 : ref->out.len), (char *)ref->out.d);
            }
        }
    }
    for (int i = 0; i < sim_nprocs(); i++) { SimProc *p = sim_proc_at(i); if (is_cop(p) && p->alive) { res_violation(r, "C16", "orphan-cop:%s:%s", cell, fk_name[P->fkind]); buf_printf(&r->detail, "a nano_cop process (pid %d) is still alive after the VM exited\n", p->pid); } }
    { extern uint64_t alloc_double_free;
      if (alloc_double_free) { res_violation(r, "C16", "double-free:%s:%s", cell, fk_name[P->fkind]); buf_printf(&r->detail, "a heap block was freed twice on the error path (%llu times); with a production allocator this aborts or corrupts the VM\n", (unsigned long long)alloc_double_free); } }
    r->nontrivial = J.fired || P->fstep == FS_EXEC_FAIL;
    snprintf(r->class_key, sizeof r->class_key, "%s/%s/k%d/%016llx", cell, fk_name[P->fkind], P->fk, (unsigned long long)sim_sched_hash());
    { char nm[80]; snprintf(nm, sizeof nm, "cell_%s_%s", cell, fk_name[P->fkind]); probe(r, nm, 1); }
    probe(r, "fault_fired", J.fired); probe(r, "cop_lingered_until_terminated", J.lingered); probe(r, P->prog[3] == 'b' ? "large_call_class" : "small_call_class", 1); probe(r, "vm_exit0_recovered", !vm->alive && WIFEXITED(vm->status) && WEXITSTATUS(vm->status) == 0 && (J.fired || P->fstep == FS_EXEC_FAIL));
    probe(r, "vm_exit1_reported", !vm->alive && WIFEXITED(vm->status) && WEXITSTATUS(vm->status) == 1);
    probe(r, "cop_relaunches", S.execs > 1 ? S.execs - 1 : 0);
    buf_printf(&r->detail, "outcome: status=0x%x out=%zuB err=[%.*s]\n", vm->status, out.len, (int)(err.len > 200 ? 200 : err.len), err.d ? (char *)err.d : "");
}

static void fam_run(uint64_t seed, const RunOpts *o, Result *r) {
    static CPlan P;
    if (o->planfile) { if (!plan_parse(&P, &seed, o->planfile)) { strcpy(r->verdict, "error"); return; } r->seed = seed; }
    else plan_gen(&P, seed, o);
    plan_print(&P, seed, &r->plan);
    plan_ready(r);
    if (strcmp(P.sub, "c16") == 0) run_c16(&P, seed, r); else run_c15(&P, seed, r);
}
Family fam_cop = { "cop", fam_run, fam_prepare };
