/* Structure-aware hostile module catalogue (C18, DESIGN.md section 4).
 * Uses a harness-global copy of /repo's nvm_format.c and isa.c, so field
 * layouts, instruction encodings and the checksum are the tree's own.
 * Catalogue version 1: the mutation is a pure function of (module, mseed). */
#include "nanosim.h"
#include <stdlib.h>
#include <string.h>
#include "nanoisa/nvm_format.h"
#include "nanoisa/isa.h"

static uint64_t hs;
static uint32_t hr(uint32_t n) { hs ^= hs << 13; hs ^= hs >> 7; hs ^= hs << 17; return n ? (uint32_t)((hs >> 11) % n) : 0; }

#define HOSTILE_CLASSES 14
int hostile_classes(void) { return HOSTILE_CLASSES; }

/* pick the k-th instruction of function f; returns its offset in mod->code or -1 */
static long nth_instr(NvmModule *mod, uint32_t f, uint32_t k, DecodedInstruction *out, uint32_t *count) {
    NvmFunctionEntry *fn = &mod->functions[f];
    uint32_t pos = fn->code_offset, end = fn->code_offset + fn->code_length, i = 0; long found = -1;
    if (end > mod->code_size) end = mod->code_size;
    while (pos < end) {
        DecodedInstruction in; uint32_t sz = isa_decode(mod->code + pos, end - pos, &in);
        if (!sz) break;
        if (i == k) { found = (long)pos; if (out) *out = in; }
        pos += sz; i++;
    }
    if (count) *count = i;
    return found;
}
static void fix_crc(uint8_t *d, size_t n) {
    uint32_t c = nvm_crc32(d + NVM_HEADER_SIZE, (uint32_t)(n - NVM_HEADER_SIZE));
    size_t o = NVM_HEADER_SIZE - 4;
    d[o] = (uint8_t)c; d[o + 1] = (uint8_t)(c >> 8); d[o + 2] = (uint8_t)(c >> 16); d[o + 3] = (uint8_t)(c >> 24);
}

bool hostile_make(const uint8_t *d, size_t n, uint32_t mseed, Buf *out, char *desc, size_t dsz) {
    hs = 0x9E3779B97F4A7C15ull ^ ((uint64_t)mseed * 0x2545F4914F6CDD1Dull); hr(2); hr(2);
    NvmModule *mod = nvm_deserialize(d, (uint32_t)n);
    if (!mod || !mod->function_count) { if (mod) nvm_module_free(mod); return false; }
    uint32_t cls = mseed % HOSTILE_CLASSES;
    uint32_t f = hr(mod->function_count);
    if (hr(2)) f = mod->header.entry_point < mod->function_count ? mod->header.entry_point : f;
    NvmFunctionEntry *fn = &mod->functions[f];
    static const uint32_t big32[] = { 0xFFFFFFFFu, 0x10000000u, 0x7FFFFFFFu, 0x80000000u };
    bool raw = false; uint8_t *blob = NULL; uint32_t bsz = 0;
    switch (cls) {
    case 0: { uint32_t v[] = { 0x10000000u, 0xFFFFFFFFu, mod->code_size, mod->code_size + 1, mod->code_size - 1 };
        fn->code_offset = v[hr(5)]; snprintf(desc, dsz, "fn[%u].code_offset=0x%x", f, fn->code_offset); break; }
    case 1: { uint32_t v[] = { 0xFFFFFFFFu, mod->code_size + 1, 0, fn->code_length + 1, fn->code_length - 1 };
        fn->code_length = v[hr(5)]; snprintf(desc, dsz, "fn[%u].code_length=0x%x", f, fn->code_length); break; }
    case 2: { uint32_t v[] = { mod->function_count, 0xFFFFFFFFu, 0x7FFFFFFFu, mod->function_count + 7 };
        mod->header.entry_point = v[hr(4)]; snprintf(desc, dsz, "entry_point=0x%x", mod->header.entry_point); break; }
    case 3: { uint16_t v[] = { 0, 0xFFFF, 1, (uint16_t)(fn->local_count / 2) };
        fn->local_count = v[hr(4)]; snprintf(desc, dsz, "fn[%u].local_count=%u", f, fn->local_count); break; }
    case 4: { uint32_t v[] = { 0xFFFFFFFFu, mod->string_count, mod->string_count + 100 };
        fn->name_idx = v[hr(3)]; snprintf(desc, dsz, "fn[%u].name_idx=0x%x", f, fn->name_idx); break; }
    case 5: case 6: case 7: {   /* operand of one instruction set to a boundary value */
        uint32_t cnt = 0; nth_instr(mod, f, 0, NULL, &cnt);
        if (!cnt) goto fail;
        DecodedInstruction in; long pos = -1;
        for (int tries = 0; tries < 40 && pos < 0; tries++) {
            long p = nth_instr(mod, f, hr(cnt), &in, NULL);
            if (p >= 0 && in.operand_count > 0) pos = p;
        }
        if (pos < 0) goto fail;
        const InstructionInfo *info = isa_get_info(in.opcode);
        int oi = (int)hr(info->operand_count);
        switch (info->operands[oi]) {
        case OPERAND_U8: in.operands[oi].u8 = (uint8_t)(hr(2) ? 0xFF : 0x80); break;
        case OPERAND_U16: in.operands[oi].u16 = (uint16_t)(hr(2) ? 0xFFFF : fn->local_count); break;
        case OPERAND_U32: in.operands[oi].u32 = big32[hr(4)]; break;
        case OPERAND_I32: { int32_t v[] = { 0x7FFFFFFF, (int32_t)0x80000000, -1, 1000000, -1000000, (int32_t)fn->code_length }; in.operands[oi].i32 = v[hr(6)]; break; }
        case OPERAND_I64: in.operands[oi].i64 = hr(2) ? INT64_MIN : INT64_MAX; break;
        case OPERAND_F64: in.operands[oi].f64 = 1e308 * 10; break;
        default: break;
        }
        uint8_t enc[32]; uint32_t sz = isa_encode(&in, enc, sizeof enc);
        if (!sz || (uint32_t)pos + sz > mod->code_size) goto fail;
        memcpy(mod->code + pos, enc, sz);
        snprintf(desc, dsz, "fn[%u] op 0x%02x operand %d at code+%ld set to boundary", f, in.opcode, oi, pos);
        break; }
    case 8: {   /* opcode replaced */
        uint32_t cnt = 0; nth_instr(mod, f, 0, NULL, &cnt);
        if (!cnt) goto fail;
        DecodedInstruction in; long pos = nth_instr(mod, f, hr(cnt), &in, NULL);
        if (pos < 0) goto fail;
        uint8_t nop = (uint8_t)hr(256);
        mod->code[pos] = nop;
        snprintf(desc, dsz, "fn[%u] opcode 0x%02x -> 0x%02x at code+%ld", f, in.opcode, nop, pos);
        break; }
    case 9: {   /* splice bytes from another place of the code section */
        if (mod->code_size < 8 || fn->code_length < 4) goto fail;
        uint32_t len = 1 + hr(fn->code_length < 16 ? fn->code_length : 16);
        uint32_t src = hr(mod->code_size - len + 1), dst = fn->code_offset + hr(fn->code_length - (len < fn->code_length ? len : fn->code_length - 1));
        if (dst + len > mod->code_size) goto fail;
        memmove(mod->code + dst, mod->code + src, len);
        snprintf(desc, dsz, "splice %u bytes code+%u -> code+%u", len, src, dst);
        break; }
    case 12: {   /* offset/length PAIRS whose sum wraps around 32 bits or lands exactly on a boundary */
        static const uint32_t pairs[][2] = { { 0x80000000u, 0x80000000u }, { 0xFFFFFFFFu, 1 }, { 0xFFFFFF00u, 0x100 }, { 0xFFFFFF00u, 0x101 }, { 1, 0xFFFFFFFFu }, { 0x7FFFFFFFu, 0x80000001u } };
        uint32_t k = hr(8);
        if (k < 6) { fn->code_offset = pairs[k][0]; fn->code_length = pairs[k][1]; }
        else if (k == 6) { fn->code_offset = mod->code_size; fn->code_length = 0; }
        else { fn->code_offset = mod->code_size + 1; fn->code_length = 0xFFFFFFFFu - mod->code_size; }
        snprintf(desc, dsz, "fn[%u].code_offset=0x%x code_length=0x%x", f, fn->code_offset, fn->code_length); break; }
    case 13: {   /* a length prefix INSIDE the string pool (or the import table) set so that position + length wraps or just overruns; checksum recomputed */
        blob = nvm_serialize(mod, &bsz);
        if (!blob || bsz < NVM_HEADER_SIZE + NVM_SECTION_ENTRY_SIZE) goto fail;
        raw = true;
        uint32_t nsec = blob[16] | (uint32_t)blob[17] << 8; bool done = false;
        for (uint32_t s = 0; s < nsec && !done; s++) {
            size_t e = NVM_HEADER_SIZE + (size_t)s * NVM_SECTION_ENTRY_SIZE; if (e + 12 > bsz) break;
            uint32_t ty, so, sz; memcpy(&ty, blob + e, 4); memcpy(&so, blob + e + 4, 4); memcpy(&sz, blob + e + 8, 4);
            if ((ty & 0xFFFF) != NVM_SECTION_STRINGS || (size_t)so + sz > bsz || sz < 4) continue;
            /* walk to the k-th prefix */
            uint32_t pos = 0, k = hr(4), at = 0; 
            for (uint32_t q = 0; pos + 4 <= sz; q++) { uint32_t l; memcpy(&l, blob + so + pos, 4); at = pos; if (q == k || l > sz - pos - 4) break; pos += 4 + l; }
            uint32_t after = at + 4;
            uint32_t v[] = { 0xFFFFFFFFu, 0xFFFFFFFFu - after + 1, 0xFFFFFFFFu - after + 1 + (sz - after), 0xFFFFFFF0u, 0x80000000u, sz - after + 1, 0u - after };
            uint32_t x = v[hr(7)];
            memcpy(blob + so + at, &x, 4);
            snprintf(desc, dsz, "string_pool+%u: length prefix=0x%x (section size %u)", at, x, sz); done = true;
        }
        if (!done) { free(blob); goto fail; }
        fix_crc(blob, bsz);
        break; }
    case 10: case 11: {   /* raw patch of the section directory / header fields, checksum recomputed */
        blob = nvm_serialize(mod, &bsz);
        if (!blob || bsz < NVM_HEADER_SIZE + NVM_SECTION_ENTRY_SIZE) goto fail;
        raw = true;
        uint32_t nsec = blob[16] | (uint32_t)blob[17] << 8;
        if (cls == 10 && nsec) {
            uint32_t s = hr(nsec), field = 1 + hr(2);
            size_t o = NVM_HEADER_SIZE + (size_t)s * NVM_SECTION_ENTRY_SIZE + 4 * field;
            uint32_t v[] = { 0xFFFFFFFFu, bsz, bsz - 1, 0x7FFFFFF0u, 0 };
            uint32_t x = v[hr(5)];
            blob[o] = (uint8_t)x; blob[o + 1] = (uint8_t)(x >> 8); blob[o + 2] = (uint8_t)(x >> 16); blob[o + 3] = (uint8_t)(x >> 24);
            snprintf(desc, dsz, "section[%u].%s=0x%x", s, field == 1 ? "offset" : "size", x);
        } else {
            size_t o = 16 + 4 * (size_t)hr(3);   /* section_count, string_pool_offset, string_pool_length */
            uint32_t v[] = { 0xFFFFFFFFu, 17, bsz, 0x7FFFFFF0u, 0 };
            uint32_t x = v[hr(5)];
            blob[o] = (uint8_t)x; blob[o + 1] = (uint8_t)(x >> 8); blob[o + 2] = (uint8_t)(x >> 16); blob[o + 3] = (uint8_t)(x >> 24);
            snprintf(desc, dsz, "header+%zu=0x%x", o, x);
        }
        fix_crc(blob, bsz);
        break; }
    }
    if (!raw) blob = nvm_serialize(mod, &bsz);
    nvm_module_free(mod);
    if (!blob) return false;
    out->len = 0; buf_put(out, blob, bsz);
    free(blob);
    return true;
fail:
    nvm_module_free(mod);
    return false;
}
