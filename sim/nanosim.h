/* shared between main.c and the scenario families */
#ifndef NANOSIM_H
#define NANOSIM_H
#include "kernel.h"

typedef struct Module { char prog[32]; int tok; uint8_t *d; size_t n; bool needs_extern; } Module;
extern Module *corpus; extern int ncorpus;
Module *corpus_find(const char *prog, int tok);
int corpus_nprogs(void); const char *corpus_prog(int i);
int corpus_ntoks(const char *prog);

/* result of one run, serialised as one JSON line */
typedef struct Result {
    const char *family;
    uint64_t seed;
    char verdict[16];        /* ok | violation | skip | crash | error */
    char property[8];        /* which property a violation belongs to */
    char sig[200];           /* stable signature: oracle clause + site */
    Buf detail;              /* human readable */
    Buf plan;                /* plan text (replayable) */
    Buf probes;              /* "name":count,... JSON fragment */
    Buf extra;               /* additional JSON fragment for evidence */
    int nontrivial;          /* family-specific: did this run exercise the property */
    char class_key[128];     /* distinct-case key */
} Result;
void res_violation(Result *r, const char *prop, const char *sigfmt, ...) __attribute__((format(printf, 3, 4)));
void plan_ready(Result *r);   /* call once the plan text is complete, before running */
void probe(Result *r, const char *name, uint64_t v);
void json_str(Buf *b, const char *s, size_t n);

typedef struct RunOpts {
    const char *tier;        /* quick | thorough */
    const char *planfile;    /* replay */
    bool trace;
    const char *sub;         /* sub-family selector */
    uint64_t base;           /* first seed of the whole check: enumerating families index their sweep by (seed - base) */
} RunOpts;

typedef struct Family {
    const char *name;
    void (*run)(uint64_t seed, const RunOpts *o, Result *r);   /* executes inside the forked run child */
    /* optional: called in the zygote before forking, may fork helper runs itself (references) */
    void (*prepare)(uint64_t seed, const RunOpts *o);
} Family;
extern Family fam_daemon, fam_cop, fam_store, fam_heap, fam_env;

/* reference runs (standalone nano_vm) cached in the zygote */
typedef struct Ref { char key[64]; Buf out, err; int status; bool valid; bool crashed; bool deser_ok; uint64_t instrs; } Ref;
Ref *ref_get(const char *prog, int tok);     /* zygote side: computes on demand in a fork */
Ref *ref_lookup(const char *prog, int tok);  /* child side: read only */
Ref *ref_get_blob(const char *key, const uint8_t *d, size_t n);
Ref *ref_lookup_key(const char *key);
bool hostile_make(const uint8_t *d, size_t n, uint32_t mseed, Buf *out, char *desc, size_t dsz);
int hostile_classes(void);

/* run a closure in a forked child and collect what it writes to `fd` */
int fork_collect(void (*fn)(void *arg, int fd), void *arg, Buf *out, int *status, char *crash_role, size_t crsz, Buf *asan);

/* compile cache (zygote side): source text -> module, compiled by the nano_virt image in a forked simulation */
typedef struct Prog { char key[40]; uint8_t *d; size_t n; bool ok; } Prog;
Prog *prog_get(const char *src);
Prog *prog_lookup(const char *key);
uint64_t fnv64(const char *s);

const char *asan_site(Buf *asan, char *kind, size_t ksz, char *site, size_t ssz);
void default_knobs(void);
void knobs_print(Buf *b);
bool knobs_parse_line(const char *line);

/* hooks from the image shims (audit.c implements the VM ones) */
extern uint64_t vm_instrs, vm_execs, deser_ok, deser_fail;

#endif
