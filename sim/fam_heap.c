/* Family "heap" (C14): ownership audit at every VM instruction boundary on
 * corpus programs and on seeded source-level programs from a small typed
 * generator of heap statements; churn templates run with k and 10k iterations.
 * The same audit also runs inside every VM of the daemon and cop families. */
#include "nanosim.h"
#include <stdlib.h>
#include <string.h>
#include <sys/wait.h>

static const char *PRELUDE =
"struct P { x: int, s: string, a: array<int> }\n"
"union U {\n  A { uv: int },\n  B { us: string }\n}\n"
"fn idS(s: string) -> string { return s }\n"
"fn idA(a: array<int>) -> array<int> { return a }\n"
"fn idA2(a: array<int>) -> array<int> { return (idA a) }\n"
"fn idSA(a: array<string>) -> array<string> { return a }\n"
"fn mkP(x: int, s: string, a: array<int>) -> P { return P { x: x, s: s, a: a } }\n"
"fn swapP(p: P) -> P { return P { x: (+ p.x 1), s: p.s, a: p.a } }\n"
"fn showU(u: U) -> string {\n    match u {\n        A(q) => { return (int_to_string q.uv) }\n        B(q) => { return q.us }\n    }\n}\n"
"fn mkadd(n: int, s: string) -> fn(int) -> int {\n    fn f(x: int) -> int { return (+ (str_length s) (+ x n)) }\n    return f\n}\n"
"fn mkarrf(a: array<int>) -> fn(int) -> int {\n    fn g(x: int) -> int { return (+ x (array_length a)) }\n    return g\n}\n"
"fn pushret(a: array<string>, s: string) -> array<string> { return (array_push a s) }\n"
"fn nest(a: array<int>) -> array<array<int>> { return [a, a] }\n"
"fn tupS(t: (int, string)) -> string { return t.1 }\n"
"struct W { p: P, t: string }\n"
"fn mkW(p: P, t: string) -> W { return W { p: p, t: t } }\n"
"fn wS(w: W) -> string { return (+ w.p.s w.t) }\n"
"fn compose(f: fn(int) -> int, g: fn(int) -> int) -> fn(int) -> int {\n    fn h(x: int) -> int { return (f (g x)) }\n    return h\n}\n"
"fn pick(a: array<string>, i: int) -> string {\n    if (< i (array_length a)) {\n        let t: string = (at a i)\n        return t\n    }\n    return \"none\"\n}\n"
"fn build(n: int) -> array<string> {\n    if (== n 0) { return [] }\n    let r: array<string> = (build (- n 1))\n    return (array_push r (int_to_string n))\n}\n"
"fn dbl(x: int) -> int { return (* x 2) }\n"
"fn isodd(x: int) -> bool { return (== (% x 2) 1) }\n"
"fn add2(a: int, b: int) -> int { return (+ a b) }\n"
"fn deep(s: string, n: int) -> string {\n    if (== n 0) { return s }\n    return (deep (+ s \"d\") (- n 1))\n}\n";

enum { TI, TS, TAI, TAS, TP, TT, TU, TF, THI, THS, TAA, TAP, NTYPES };
static const char *tyname[] = { "int", "string", "array<int>", "array<string>", "P", "(int, string)", "U", "fn(int) -> int",
                                "HashMap<string, int>", "HashMap<string, string>", "array<array<int>>", "array<P>" };
static const char *typfx[] = { "i", "s", "a", "q", "p", "t", "u", "f", "hi", "hs", "aa", "ap" };
typedef struct Gen { int cnt[NTYPES]; Buf *b; int depth; bool in_loop; int loopvars; } Gen;
static uint64_t gs;
static uint32_t gr(uint32_t n) { gs ^= gs << 13; gs ^= gs >> 7; gs ^= gs << 17; return n ? (uint32_t)((gs >> 9) % n) : 0; }
static void var(Gen *g, int ty, char *out) { sprintf(out, "%s%u", typfx[ty], gr((uint32_t)g->cnt[ty])); }
static void ind(Gen *g) { for (int i = 0; i <= g->depth; i++) buf_printf(g->b, "    "); }
static void newvar(Gen *g, int ty, char *out) { sprintf(out, "%s%d", typfx[ty], g->cnt[ty]); }

static void gen_stmt(Gen *g);
static void gen_block(Gen *g, int n) { for (int i = 0; i < n; i++) gen_stmt(g); }

static void gen_stmt(Gen *g) {
    char x[16], y[16], z[16], nv[16];
    uint32_t k = gr(g->in_loop ? 30 : 46);
    if (gr(5) == 0) k = 46 + gr(9);
    ind(g);
    switch (k) {
    /* ---- mutations (allowed inside loops) ---- */
    case 0: var(g, TS, x); var(g, TS, y);
        if (gr(3) == 0) buf_printf(g->b, "if (< (str_length %s) 700) { set %s (+ %s \"x\") } else { set %s \"r\" }\n", x, x, x, x);   /* one byte at a time: every length */
        else buf_printf(g->b, "if (< (str_length %s) 700) { set %s (+ %s %s) } else { set %s \"r\" }\n", x, x, x, y, x);
        break;
    case 1: var(g, TS, x); var(g, TI, y); buf_printf(g->b, "set %s (+ (idS %s) (int_to_string %s))\n", x, x, y); break;
    case 2: var(g, TAI, x); var(g, TI, y); buf_printf(g->b, "if (< (array_length %s) 60) { set %s (array_push %s %s) }\n", x, x, x, y); break;
    case 3: var(g, TAI, x); var(g, TI, y); buf_printf(g->b, "if (> (array_length %s) 0) { set %s (array_pop %s) }\n", x, y, x); break;
    case 4: var(g, TAI, x); var(g, TI, y); buf_printf(g->b, "if (> (array_length %s) %u) { (array_set %s %u %s) }\n", x, gr(3), x, gr(3) % 1, y); break;
    case 5: var(g, TAI, x); buf_printf(g->b, "if (> (array_length %s) 2) { (array_remove_at %s %u) }\n", x, x, gr(2)); break;
    case 6: var(g, TAS, x); var(g, TS, y); buf_printf(g->b, "if (< (array_length %s) 60) { set %s (array_push %s %s) }\n", x, x, x, y); break;
    case 7: var(g, TAS, x); var(g, TS, y); buf_printf(g->b, "if (< (array_length %s) 60) { set %s (pushret %s (+ %s \"!\")) }\n", x, x, x, y); break;
    case 8: var(g, TAS, x); var(g, TS, y); buf_printf(g->b, "if (> (array_length %s) 0) { set %s (at %s (- (array_length %s) 1)) }\n", x, y, x, x); break;
    case 9: var(g, TAS, x); var(g, TS, y); buf_printf(g->b, "if (> (array_length %s) 1) { (array_set %s 1 %s) }\n", x, x, y); break;
    case 10: var(g, TAS, x); buf_printf(g->b, "if (> (array_length %s) 2) { (array_remove_at %s 0) }\n", x, x); break;
    case 11: var(g, TAS, x); var(g, TS, y); buf_printf(g->b, "if (> (array_length %s) 0) { set %s (array_pop %s) }\n", x, y, x); break;
    case 12: var(g, TP, x); var(g, TS, y); buf_printf(g->b, "set %s %s.s\n", y, x); break;
    case 13: var(g, TP, x); var(g, TAI, y); buf_printf(g->b, "set %s %s.a\n", y, x); break;
    case 14: var(g, TP, x); var(g, TP, y); buf_printf(g->b, "set %s (swapP %s)\n", x, y); break;
    case 15: var(g, TP, x); var(g, TI, y); var(g, TS, z); { char w[16]; var(g, TAI, w); buf_printf(g->b, "set %s (mkP %s %s %s)\n", x, y, z, w); } break;
    case 16: var(g, TT, x); var(g, TS, y); buf_printf(g->b, "set %s (tupS %s)\n", y, x); break;
    case 17: var(g, TT, x); var(g, TI, y); var(g, TS, z); buf_printf(g->b, "set %s (%s, %s)\n", x, y, z); break;
    case 18: var(g, TU, x); var(g, TS, y); buf_printf(g->b, "set %s (showU %s)\n", y, x); break;
    case 19: var(g, TU, x); var(g, TS, y); var(g, TI, z); if (gr(2)) buf_printf(g->b, "set %s U.B { us: %s }\n", x, y); else buf_printf(g->b, "set %s U.A { uv: %s }\n", x, z); break;
    case 20: var(g, TF, x); var(g, TI, y); buf_printf(g->b, "set %s (%s (%% %s 1000))\n", y, x, y); break;
    case 21: var(g, TF, x); var(g, TI, y); var(g, TS, z); { char w[16]; var(g, TAI, w); if (gr(2)) buf_printf(g->b, "set %s (mkadd %s %s)\n", x, y, z); else buf_printf(g->b, "set %s (mkarrf %s)\n", x, w); } break;
    case 22: var(g, THI, x); var(g, TS, y); var(g, TI, z); buf_printf(g->b, "(map_put %s %s %s)\n", x, y, z); break;
    case 23: var(g, THI, x); var(g, TS, y); var(g, TI, z); buf_printf(g->b, "if (map_has %s %s) { set %s (map_get %s %s) }\n", x, y, z, x, y); break;
    case 24: var(g, THS, x); var(g, TS, y); var(g, TS, z); buf_printf(g->b, "(map_put %s %s %s)\n", x, y, z); break;
    case 25: var(g, THS, x); var(g, TS, y); var(g, TS, z); buf_printf(g->b, "if (map_has %s %s) { set %s (map_get %s %s) }\n", x, y, z, x, y); break;
    case 26: var(g, TAA, x); var(g, TAI, y); buf_printf(g->b, "if (< (array_length %s) 20) { set %s (array_push %s %s) }\n", x, x, x, y); break;
    case 27: var(g, TAA, x); var(g, TAI, y); buf_printf(g->b, "if (> (array_length %s) 0) { set %s (at %s 0) }\n", x, y, x); break;
    case 28: var(g, TAP, x); var(g, TP, y); buf_printf(g->b, "if (> (array_length %s) 0) { set %s (at %s 0) }\n", x, y, x); break;
    case 29: var(g, TS, x); buf_printf(g->b, "set %s (deep %s %u)\n", x, x, 1 + gr(6)); break;
    /* ---- new variables / structure (top level only) ---- */
    case 30: newvar(g, TS, nv); var(g, TS, x); var(g, TI, y);
        if (gr(3) == 0) buf_printf(g->b, "let mut %s: string = (to_string %s)\n", nv, x);   /* a cast to the type the value already has: the result IS the operand */
        else buf_printf(g->b, "let mut %s: string = (+ %s (int_to_string %s))\n", nv, x, y);
        g->cnt[TS]++; break;
    case 31: newvar(g, TAI, nv); var(g, TAI, x); buf_printf(g->b, "let mut %s: array<int> = %s\n", nv, x); g->cnt[TAI]++; break;
    case 32: newvar(g, TAI, nv); var(g, TAI, x); buf_printf(g->b, "let mut %s: array<int> = (array_slice %s 0 (/ (array_length %s) 2))\n", nv, x, x); g->cnt[TAI]++; break;
    case 33: newvar(g, TAI, nv); var(g, TAI, x); buf_printf(g->b, "let mut %s: array<int> = (idA2 %s)\n", nv, x); g->cnt[TAI]++; break;
    case 34: newvar(g, TAS, nv); var(g, TAS, x); if (gr(2)) buf_printf(g->b, "let mut %s: array<string> = %s\n", nv, x); else buf_printf(g->b, "let mut %s: array<string> = (array_slice %s 0 (/ (array_length %s) 2))\n", nv, x, x); g->cnt[TAS]++; break;
    case 35: newvar(g, TP, nv); var(g, TP, x); if (gr(2)) buf_printf(g->b, "let mut %s: P = %s\n", nv, x); else { var(g, TI, y); var(g, TS, z); char w[16]; var(g, TAI, w); buf_printf(g->b, "let mut %s: P = (mkP %s %s %s)\n", nv, y, z, w); } g->cnt[TP]++; break;
    case 36: newvar(g, TT, nv); var(g, TI, y); var(g, TS, z); buf_printf(g->b, "let mut %s: (int, string) = (%s, %s)\n", nv, y, z); g->cnt[TT]++; break;
    case 37: newvar(g, TU, nv); var(g, TS, y); buf_printf(g->b, "let mut %s: U = U.B { us: (+ %s \"u\") }\n", nv, y); g->cnt[TU]++; break;
    case 38: newvar(g, TF, nv); var(g, TI, y); var(g, TS, z); buf_printf(g->b, "let mut %s: fn(int) -> int = (mkadd %s %s)\n", nv, y, z); g->cnt[TF]++; break;
    case 39: newvar(g, TAS, nv); var(g, THS, x); buf_printf(g->b, "let mut %s: array<string> = (%s %s)\n", nv, gr(2) ? "map_keys" : "map_values", x); g->cnt[TAS]++; break;
    case 40: newvar(g, TAA, nv); var(g, TAI, x); buf_printf(g->b, "let mut %s: array<array<int>> = (nest %s)\n", nv, x); g->cnt[TAA]++; break;
    case 41: newvar(g, TAP, nv); var(g, TP, x); var(g, TP, y); buf_printf(g->b, "let mut %s: array<P> = [%s, %s]\n", nv, x, y); g->cnt[TAP]++; break;
    case 42: case 43: {   /* loop */
        int lv = g->loopvars++; uint32_t iters = 1 + gr(12);
        buf_printf(g->b, "let mut k%d: int = 0\n", lv); ind(g);
        buf_printf(g->b, "while (< k%d %u) {\n", lv, iters);
        bool was = g->in_loop; g->in_loop = true; g->depth++;
        gen_block(g, 1 + (int)gr(4));
        ind(g); buf_printf(g->b, "set k%d (+ k%d 1)\n", lv, lv);
        g->depth--; g->in_loop = was;
        ind(g); buf_printf(g->b, "}\n");
        break; }
    case 44: {   /* print something derived from heap state */
        uint32_t w = gr(5);
        if (w == 0) { var(g, TS, x); buf_printf(g->b, "(println %s)\n", x); }
        else if (w == 1) { var(g, TAI, x); buf_printf(g->b, "(println (int_to_string (array_length %s)))\n", x); }
        else if (w == 2) { var(g, TAS, x); buf_printf(g->b, "(println (int_to_string (array_length %s)))\n", x); }
        else if (w == 3) { var(g, TP, x); buf_printf(g->b, "(println %s.s)\n", x); }
        else { var(g, TI, x); buf_printf(g->b, "(println (int_to_string %s))\n", x); }
        break; }
    case 46: var(g, TP, x); var(g, TS, y); buf_printf(g->b, "set %s (wS (mkW %s %s))\n", y, x, y); break;
    case 47: var(g, TF, x); var(g, TF, y); buf_printf(g->b, "set %s (compose %s %s)\n", x, x, y); break;
    case 48: var(g, TAS, x); var(g, TS, y); var(g, TI, z); buf_printf(g->b, "set %s (pick %s (%% %s 5))\n", y, x, z); break;
    case 49: var(g, TAS, x); buf_printf(g->b, "set %s (build %u)\n", x, gr(7)); break;
    case 50: var(g, TAI, x); var(g, TAI, y); buf_printf(g->b, "set %s (map %s dbl)\n", x, y); break;
    case 51: var(g, TAI, x); var(g, TAI, y); buf_printf(g->b, "set %s (filter %s isodd)\n", x, y); break;
    case 52: var(g, TAI, x); var(g, TI, y); buf_printf(g->b, "set %s (reduce %s 0 add2)\n", y, x); break;
    case 53: var(g, TAS, x); var(g, TS, y); buf_printf(g->b, "if (> (array_length %s) 0) { let aas: array<array<string>> = [%s, %s]\n", x, x, x); ind(g); buf_printf(g->b, "    let row: array<string> = (at aas 1)\n"); ind(g); buf_printf(g->b, "    set %s (at row 0) }\n", y); break;
    case 54: var(g, TP, x); var(g, TI, y); buf_printf(g->b, "if (> %s 0) { let tu: (int, array<int>) = (%s, %s.a)\n", y, y, x); ind(g); buf_printf(g->b, "    set %s (array_length tu.1) }\n", y); break;
    default: {  /* if/else */
        var(g, TI, x);
        buf_printf(g->b, "if (== (%% %s 2) 0) {\n", x);
        bool was = g->in_loop; g->in_loop = true; g->depth++;
        gen_block(g, 1 + (int)gr(2));
        g->depth--; ind(g); buf_printf(g->b, "} else {\n"); g->depth++;
        gen_block(g, 1 + (int)gr(2));
        g->depth--; g->in_loop = was; ind(g); buf_printf(g->b, "}\n");
        break; }
    }
}
void heap_gen_program(uint64_t pseed, Buf *src);
static void gen_program(uint64_t pseed, Buf *src) { heap_gen_program(pseed, src); }
void heap_gen_program(uint64_t pseed, Buf *src) {
    gs = pseed * 0x9E3779B97F4A7C15ull + 12345; gr(2); gr(2);
    Gen g; memset(&g, 0, sizeof g); g.b = src;
    buf_printf(src, "%s", PRELUDE);
    buf_printf(src, "fn main() -> int {\n    (println \"G%llu\")\n", (unsigned long long)pseed);
    buf_printf(src, "    let mut i0: int = %u\n    let mut i1: int = 1\n    let mut s0: string = \"s%u\"\n    let mut s1: string = (+ s0 \"-\")\n"
               "    let mut a0: array<int> = [1, 2, 3]\n    let mut q0: array<string> = [s0, \"lit\"]\n    let mut p0: P = (mkP 1 s1 a0)\n"
               "    let mut t0: (int, string) = (7, s0)\n    let mut u0: U = U.A { uv: 3 }\n    let mut f0: fn(int) -> int = (mkadd 2 s0)\n"
               "    let mut hi0: HashMap<string, int> = (map_new)\n    let mut hs0: HashMap<string, string> = (map_new)\n"
               "    let mut aa0: array<array<int>> = [a0]\n    let mut ap0: array<P> = [p0]\n", gr(100), gr(100));
    for (int t = 0; t < NTYPES; t++) g.cnt[t] = 1;
    g.cnt[TI] = 2; g.cnt[TS] = 2;
    int n = 12 + (int)gr(30);
    gen_block(&g, n);
    /* observable summary so that a wrong value shows in the output too */
    buf_printf(src, "    (println (+ s0 (+ \"|\" (+ (int_to_string (array_length a0)) (+ \"|\" (int_to_string (array_length q0)))))))\n");
    buf_printf(src, "    (println (+ p0.s (+ \"|\" (+ (showU u0) (+ \"|\" (int_to_string (f0 1)))))))\n");
    buf_printf(src, "    return 0\n}\n");
    buf_put(src, "", 1); src->len--;
}

/* ---------------- churn templates: loop body whose values die each iteration ---------------- */
static const struct { const char *name, *decl, *body; } CHURN[] = {
    { "identity_cast_string", "", "let s: string = (+ \"a\" (int_to_string i))\n        let t: string = (to_string s)\n        let u: string = (to_string t)\n        set acc (+ acc (str_length u))" },
    { "string_concat", "", "let s: string = (+ \"a\" (int_to_string i))\n        set acc (+ acc (str_length s))" },
    { "array_literal", "", "let a: array<int> = [i, 2, 3]\n        set acc (+ acc (array_length a))" },
    { "array_push", "", "let mut a: array<int> = []\n        set a (array_push a i)\n        set a (array_push a 2)\n        set acc (+ acc (at a 0))" },
    { "struct_literal", "struct Q { x: int, s: string }\n", "let p: Q = Q { x: i, s: (int_to_string i) }\n        set acc (+ acc p.x)" },
    { "tuple", "", "let t: (int, string) = (i, (int_to_string i))\n        set acc (+ acc t.0)" },
    { "closure", "fn mk(n: int) -> fn(int) -> int {\n    fn inner(x: int) -> int { return (+ x n) }\n    return inner\n}\n", "let cl: fn(int) -> int = (mk i)\n        set acc (+ acc (cl 1))" },
    { "closure_capturing_string", "fn mks(s: string) -> fn(int) -> int {\n    fn inner2(x: int) -> int { return (+ x (str_length s)) }\n    return inner2\n}\n", "let cl: fn(int) -> int = (mks (int_to_string i))\n        set acc (+ acc (cl 1))" },
    { "closure_immediate_call", "fn mk3(n: int) -> fn(int) -> int {\n    fn inner3(x: int) -> int { return (+ x n) }\n    return inner3\n}\n", "set acc (+ acc ((mk3 i) 2))" },
    { "array_plus_elementwise", "", "let a: array<int> = [i, 2, 3]\n        let b: array<int> = (+ a a)\n        set acc (+ acc (at b 0))" },
    { "string_array_concat_elementwise", "", "let a: array<string> = [(int_to_string i), \"q\"]\n        let b: array<string> = (+ a a)\n        set acc (+ acc (array_length b))" },
    { "map_filter_reduce", "fn d2(x: int) -> int { return (* x 2) }\nfn od(x: int) -> bool { return (== (% x 2) 0) }\nfn ad(a: int, b: int) -> int { return (+ a b) }\n", "let a: array<int> = [i, 2, 3]\n        let m: array<int> = (map a d2)\n        let fl: array<int> = (filter m od)\n        set acc (+ acc (reduce fl 0 ad))" },
    { "struct_with_array_field", "struct SA { n: string, a: array<string> }\n", "let p: SA = SA { n: (int_to_string i), a: [(int_to_string i), \"k\"] }\n        set acc (+ acc (array_length p.a))" },
    { "hashmap_keys_values", "", "let h: HashMap<string, string> = (map_new)\n        (map_put h (int_to_string i) \"v\")\n        let ks: array<string> = (map_keys h)\n        let vs: array<string> = (map_values h)\n        set acc (+ acc (+ (array_length ks) (array_length vs)))" },
    { "hashmap", "", "let h: HashMap<string, int> = (map_new)\n        (map_put h (int_to_string i) i)\n        set acc (+ acc (map_size h))" },
    { "nested_string_array", "", "let a: array<string> = [(int_to_string i), \"x\"]\n        let b: array<array<string>> = [a, a]\n        set acc (+ acc (array_length b))" },
    { "union_match", "union R {\n  Ok { v: int },\n  Er { e: string }\n}\n", "let r: R = R.Er { e: (int_to_string i) }\n        match r {\n            Ok(o) => { set acc (+ acc o.v) }\n            Er(x) => { set acc (+ acc (str_length x.e)) }\n        }" },
    { "array_remove", "", "let mut a: array<string> = [(int_to_string i), \"y\", \"z\"]\n        (array_remove_at a 0)\n        set acc (+ acc (array_length a))" },
    { "array_slice", "", "let a: array<string> = [(int_to_string i), \"y\", \"z\"]\n        let b: array<string> = (array_slice a 0 2)\n        set acc (+ acc (array_length b))" },
    { "string_return", "fn mks(n: int) -> string { return (+ \"v\" (int_to_string n)) }\n", "let s: string = (mks i)\n        set acc (+ acc (str_length s))" },
    { "array_pop", "", "let mut a: array<string> = [(int_to_string i), \"y\"]\n        let s: string = (array_pop a)\n        set acc (+ acc (str_length s))" },
    { "early_return_inside_operand", "union Rec {\n  Good { text: string },\n  Bad { code: int }\n}\nfn label(r: Rec, n: int) -> string {\n    let s: string = (+ (+ \"item-\" (int_to_string n)) (match r {\n        Good(g) => g.text\n        Bad(b) => { return \"rejected\" }\n    }))\n    return s\n}\n",
      "if (== (% i 2) 0) {\n            set acc (+ acc (str_length (label Rec.Good { text: (int_to_string i) } i)))\n        } else {\n            set acc (+ acc (str_length (label Rec.Bad { code: i } i)))\n        }" },
    { "early_return_from_loop_in_callee", "fn findfirst(a: array<string>, want: int) -> string {\n    let mut k: int = 0\n    while (< k (array_length a)) {\n        let t: string = (+ (at a k) \"!\")\n        if (== (str_length t) want) { return (+ t (int_to_string k)) }\n        set k (+ k 1)\n    }\n    return \"none\"\n}\n",
      "let a: array<string> = [(int_to_string i), \"yy\", \"zzz\"]\n        set acc (+ acc (str_length (+ (int_to_string i) (findfirst a 3))))" },
    { "closure_array_slice", "fn mkc(tag: string, w: array<string>) -> fn(int) -> int {\n    fn cnt(x: int) -> int { return (+ (+ (str_length tag) (array_length w)) x) }\n    return cnt\n}\n",
      "let mut fs: array<fn(int) -> int> = []\n        set fs (array_push fs (mkc (int_to_string i) [\"a\", \"b\"]))\n        set fs (array_push fs (mkc \"k\" [\"c\"]))\n        let part: array<fn(int) -> int> = (array_slice fs 0 1)\n        let g: fn(int) -> int = (at part 0)\n        let h: fn(int) -> int = (at fs 0)\n        set acc (+ acc (+ (g 1) (h 2)))" },
    { "closure_in_struct_field", "struct H { f: fn(int) -> int, s: string }\nfn mkh(tag: string) -> fn(int) -> int {\n    fn hh(x: int) -> int { return (+ (str_length tag) x) }\n    return hh\n}\n",
      "let h: H = H { f: (mkh (int_to_string i)), s: (int_to_string i) }\n        let g: fn(int) -> int = h.f\n        set acc (+ acc (+ (g 1) (str_length h.s)))" },
    { "nested_array_slice", "", "let a: array<array<string>> = [[(int_to_string i)], [\"y\"], [\"z\", \"w\"]]\n        let b: array<array<string>> = (array_slice a 1 3)\n        let c: array<string> = (at b 1)\n        set acc (+ acc (+ (array_length b) (array_length c)))" },
    { "struct_field_overwrite", "struct M { s: string, a: array<string> }\n", "let mut m: M = M { s: (int_to_string i), a: [(int_to_string i)] }\n        set m (M { s: (+ m.s \"x\"), a: (array_push m.a m.s) })\n        set acc (+ acc (+ (str_length m.s) (array_length m.a)))" },
    { "union_holding_array", "union V {\n  Many { xs: array<string> },\n  One { x: string }\n}\n", "let v: V = V.Many { xs: [(int_to_string i), \"q\"] }\n        match v {\n            Many(mm) => { set acc (+ acc (array_length mm.xs)) }\n            One(o) => { set acc (+ acc (str_length o.x)) }\n        }" },
    { "break_with_temporaries", "", "let mut k: int = 0\n        while (< k 5) {\n            let t: string = (+ (int_to_string i) (int_to_string k))\n            if (== k 2) { break }\n            set acc (+ acc (str_length t))\n            set k (+ k 1)\n        }" },
    { "string_256_boundary", "fn rep(n: int) -> string {\n    let mut s: string = \"\"\n    let mut k: int = 0\n    while (< k n) {\n        set s (+ s \"r\")\n        set k (+ k 1)\n    }\n    return s\n}\n", "let s: string = (rep (+ 250 (% i 12)))\n        set acc (+ acc (str_length s))" },
    { "substring_whole_string", "fn whole(s: string) -> string { return (str_substring s 0 (str_length s)) }\n",
      "let s: string = (+ \"ab\" (int_to_string i))\n        let t: string = (str_substring s 0 (str_length s))\n        let u: string = (whole (+ s \"!\"))\n        set acc (+ acc (+ (str_length t) (str_length u)))" },
    { "builtins_that_may_return_their_argument", "", "let s: string = (+ \"q\" (int_to_string i))\n        let a: array<string> = [s, \"z\"]\n        let e: array<string> = []\n        let c1: string = (str_concat s \"\")\n        let c2: string = (+ \"\" s)\n        let a2: array<string> = (+ a e)\n        let a3: array<string> = (array_slice a 0 (array_length a))\n        set acc (+ acc (+ (+ (str_length c1) (str_length c2)) (+ (array_length a2) (array_length a3))))" },
    { "hashmap_rehash", "", "let h: HashMap<string, string> = (map_new)\n        let mut k: int = 0\n        while (< k 30) {\n            (map_put h (+ (int_to_string i) (+ \":\" (int_to_string k))) (+ \"v\" (int_to_string (+ i k))))\n            set k (+ k 1)\n        }\n        (map_put h (+ (int_to_string i) \":3\") \"again\")\n        (map_delete h (+ (int_to_string i) \":4\"))\n        set acc (+ acc (map_size h))" },
    { "trap_with_heap_operands_popped", "", "let units: array<string> = [(int_to_string i), \"k\"]\n        let sfx: string = (+ \"s\" (int_to_string i))\n        if (== i 7) {\n            (println (+ (at units 9) sfx))\n        }\n        set acc (+ acc (str_length sfx))" },
    { "trap_in_callee_with_live_frames", "fn pick2(a: array<string>, n: int, pre: string) -> string {\n    let t: string = (+ pre (at a n))\n    return t\n}\n", "let a: array<string> = [(int_to_string i), \"k\"]\n        let r: string = (pick2 a (% i 9) (+ \"p\" (int_to_string i)))\n        set acc (+ acc (str_length r))" },
    { "map_get_missing_then_use", "", "let h: HashMap<string, string> = (map_new)\n        (map_put h \"a\" (int_to_string i))\n        let v: string = (map_get h (+ \"a\" (int_to_string (% i 3))))\n        set acc (+ acc (map_size h))" },
    { "map_string_values", "", "let h: HashMap<string, string> = (map_new)\n        (map_put h \"k\" (int_to_string i))\n        (map_put h \"k\" (+ \"w\" (int_to_string i)))\n        set acc (+ acc (str_length (map_get h \"k\")))" },
};
#define NCHURN ((int)(sizeof CHURN / sizeof CHURN[0]))
static void gen_churn(int t, int iters, Buf *src) {
    buf_printf(src, "%sfn main() -> int {\n    let mut acc: int = 0\n    let mut i: int = 0\n    while (< i %d) {\n        %s\n        set i (+ i 1)\n    }\n    (println (int_to_string acc))\n    return 0\n}\n",
               CHURN[t].decl, iters, CHURN[t].body);
    buf_put(src, "", 1); src->len--;
}

typedef struct HPlan { int mode; /* 0 generated, 1 corpus, 2 churn */ uint64_t pseed; char prog[32]; int tok; int churn; int junk, movere, pad; } HPlan;
static void plan_gen(HPlan *P, uint64_t seed, const RunOpts *o) {
    memset(P, 0, sizeof *P);
    bool quick = strcmp(o->tier, "quick") == 0;
    sim_seed(seed); default_knobs(); K.max_blocks = 300000000;
    uint32_t m = sim_rndn(100);
    uint32_t pool = quick ? 2500 : 400000;
    if (m < 70) { P->mode = 0; P->pseed = sim_rnd() % pool; }
    else if (m < 85) { P->mode = 1; snprintf(P->prog, sizeof P->prog, "%s", corpus_prog((int)sim_rndn((uint32_t)corpus_nprogs()))); P->tok = (int)sim_rndn(8); }
    else { P->mode = 2; P->churn = (int)sim_rndn((uint32_t)NCHURN); }
    P->junk = sim_rndn(2) ? 1 + (int)sim_rndn(255) : 0; P->movere = (int)sim_rndn(2); P->pad = sim_rndn(2) ? (int)sim_rndn(300) : 0;
    K.stack_mode = sim_rndn(3) == 0 ? 1 + (int)sim_rndn(256) : 0;
}
static void plan_print(HPlan *P, uint64_t seed, Buf *b) {
    buf_printf(b, "family heap\nseed %llu\nknob max_blocks %llu\nknob stack_mode %d\n", (unsigned long long)seed, (unsigned long long)K.max_blocks, K.stack_mode);
    if (P->mode == 0) buf_printf(b, "op generated pseed=%llu\n", (unsigned long long)P->pseed);
    else if (P->mode == 1) buf_printf(b, "op corpus prog=%s tok=%d\n", P->prog, P->tok);
    else buf_printf(b, "op churn template=%d\n", P->churn);
    buf_printf(b, "alloc junk=%d move_realloc=%d pad_pm=%d\n", P->junk, P->movere, P->pad);
}
static bool plan_parse(HPlan *P, uint64_t *seed, const char *path) {
    FILE *f = __real_fopen(path, "r"); if (!f) return false;
    memset(P, 0, sizeof *P); default_knobs(); K.max_blocks = 300000000;
    char line[512];
    while (fgets(line, sizeof line, f)) {
        unsigned long long s; char k[32]; int a, b, c;
        if (sscanf(line, "seed %llu", &s) == 1) *seed = s;
        else if (strncmp(line, "knob ", 5) == 0) knobs_parse_line(line);
        else if (sscanf(line, "op generated pseed=%llu", &s) == 1) { P->mode = 0; P->pseed = s; }
        else if (sscanf(line, "op corpus prog=%31s tok=%d", k, &a) == 2) { P->mode = 1; snprintf(P->prog, sizeof P->prog, "%s", k); P->tok = a; }
        else if (sscanf(line, "op churn template=%d", &a) == 1) { P->mode = 2; P->churn = a; }
        else if (sscanf(line, "alloc junk=%d move_realloc=%d pad_pm=%d", &a, &b, &c) == 3) { P->junk = a; P->movere = b; P->pad = c; }
    }
    fclose(f);
    return true;
}
/* short and long run of a churn template; 31 map operations per iteration: a leak makes the VM's string interning quadratic, so that one keeps its long run short */
static void churn_iterations(int t, int its[2]) { its[0] = 40; its[1] = 400; if (strstr(CHURN[t].name, "rehash")) { its[0] = 8; its[1] = 60; } }
static void fam_prepare(uint64_t seed, const RunOpts *o) {
    static HPlan P; uint64_t s = seed;
    if (o->planfile) { if (!plan_parse(&P, &s, o->planfile)) return; } else plan_gen(&P, seed, o);
    Buf src = {0};
    if (P.mode == 0) { gen_program(P.pseed, &src); prog_get((char *)src.d); }
    else if (P.mode == 2) { int its[2]; churn_iterations(P.churn, its); gen_churn(P.churn, its[0], &src); prog_get((char *)src.d); src.len = 0; gen_churn(P.churn, its[1], &src); prog_get((char *)src.d); }
    buf_free(&src);
}

extern int audit_mode; extern uint64_t audit_stride, audits, audit_objs, audit_fail, alloc_double_free, vm_final_objects;
extern char audit_msg[]; extern int alloc_junk_on, alloc_move_realloc, alloc_pad_pm; extern void alloc_seed(uint64_t);
typedef struct VmOut { int status; uint64_t objects; bool finished; uint64_t instrs; } VmOut;
static Buf h_out, h_err;
static VmOut run_vm(const uint8_t *d, size_t n) {
    VmOut v; memset(&v, 0, sizeof v);
    simfs_put("/sim/h.nvm", d, n);
    h_out.len = h_err.len = 0; vm_final_objects = (uint64_t)-1;
    uint64_t i0 = vm_instrs;
    static char *av[] = { "nano_vm", "/sim/h.nvm", NULL };
    SimProc *p = sim_spawn("nano_vm", "nano_vm", 2, av, &h_out, &h_err, sim_now_us());
    int rc = sim_run();
    v.finished = rc == 0 && !p->alive; v.status = p->status; v.objects = vm_final_objects; v.instrs = vm_instrs - i0;
    return v;
}
static void fam_run(uint64_t seed, const RunOpts *o, Result *r) {
    static HPlan P;
    if (o->planfile) { if (!plan_parse(&P, &seed, o->planfile)) { strcpy(r->verdict, "error"); return; } r->seed = seed; }
    else plan_gen(&P, seed, o);
    plan_print(&P, seed, &r->plan);
    plan_ready(r);
    SimKnobs saved = K; sim_reset(); K = saved; sim_seed(seed ^ 0xC14ull);
    audit_mode = 1; audit_stride = 1;
    alloc_junk_on = P.junk; alloc_move_realloc = P.movere; alloc_pad_pm = P.pad; alloc_seed(seed);
    Buf src = {0}; char key[40];
    if (P.mode == 1) {
        Module *m = corpus_find(P.prog, P.tok);
        if (!m) { strcpy(r->verdict, "skip"); return; }
        VmOut v = run_vm(m->d, m->n);
        if (!v.finished) { res_violation(r, "C14", "vm-did-not-finish:%s", P.prog); }
        snprintf(r->class_key, sizeof r->class_key, "corpus:%s", P.prog);
        r->nontrivial = v.instrs > 0;
    } else if (P.mode == 0) {
        gen_program(P.pseed, &src);
        snprintf(key, sizeof key, "g%016llx", (unsigned long long)fnv64((char *)src.d));
        Prog *pg = prog_lookup(key);
        if (!pg || !pg->ok) { strcpy(r->verdict, "skip"); buf_printf(&r->detail, "generated program rejected by the compiler (outside the property's quantifier)"); probe(r, "rejected_programs", 1); buf_free(&src); return; }
        VmOut v = run_vm(pg->d, pg->n);
        if (!v.finished) res_violation(r, "C14", "vm-did-not-finish:generated");
        snprintf(r->class_key, sizeof r->class_key, "gen:%llu", (unsigned long long)P.pseed);
        r->nontrivial = v.instrs > 100;
        probe(r, "generated_programs_run", 1);
        if (v.finished && WIFEXITED(v.status) && WEXITSTATUS(v.status) != 0) probe(r, "generated_runtime_error", 1);
    } else {
        uint64_t obj[2] = { 0, 0 }; int its[2]; churn_iterations(P.churn, its);
        for (int j = 0; j < 2; j++) {
            src.len = 0; gen_churn(P.churn, its[j], &src);
            snprintf(key, sizeof key, "g%016llx", (unsigned long long)fnv64((char *)src.d));
            Prog *pg = prog_lookup(key);
            if (!pg || !pg->ok) { strcpy(r->verdict, "skip"); buf_printf(&r->detail, "churn template %s rejected by the compiler", CHURN[P.churn].name); buf_free(&src); return; }
            VmOut v = run_vm(pg->d, pg->n);
            /* templates named trap_* end in a run-time error by design: what is judged is the audit up to the trap and the unwinding in
             * vm_destroy (double release, use after free), not the growth of the live-object count */
            bool traps = strncmp(CHURN[P.churn].name, "trap_", 5) == 0;
            if (traps && v.finished && WIFEXITED(v.status) && WEXITSTATUS(v.status) == 1) { obj[0] = obj[1] = 0; continue; }
            if (!v.finished || v.status != 0) { strcpy(r->verdict, "skip"); buf_printf(&r->detail, "churn template %s did not run to completion (status 0x%x)", CHURN[P.churn].name, v.status); buf_free(&src); return; }
            obj[j] = v.objects;
        }
        if (obj[1] > obj[0] + 2) {
            res_violation(r, "C14", "churn-growth:%s", CHURN[P.churn].name);
            buf_printf(&r->detail, "loop template '%s': live VM heap objects at vm_destroy = %llu after 40 iterations, %llu after 400 iterations (values die each iteration, so this must not grow)\n",
                       CHURN[P.churn].name, (unsigned long long)obj[0], (unsigned long long)obj[1]);
        }
        snprintf(r->class_key, sizeof r->class_key, "churn:%s", CHURN[P.churn].name);
        r->nontrivial = 1;
        { char nm[64]; snprintf(nm, sizeof nm, "churn_%s", CHURN[P.churn].name); probe(r, nm, 1); }
    }
    if (audit_fail) { res_violation(r, "C14", "audit:%s", strncmp(audit_msg, "reachable", 9) == 0 ? "reachable-object-freed" : strstr(audit_msg, "ref_count") ? "refcount-below-references" : "object-corrupt");
                      buf_printf(&r->detail, "ownership audit failed at an instruction boundary: %s\n", audit_msg); }
    if (alloc_double_free) { res_violation(r, "C14", "double-free"); buf_printf(&r->detail, "a block was freed twice (%llu times)\n", (unsigned long long)alloc_double_free); }
    probe(r, "audits", audits); probe(r, "audit_objs", audit_objs);
    buf_free(&src);
}
Family fam_heap = { "heap", fam_run, fam_prepare };
