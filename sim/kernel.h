/* nanosim kernel: deterministic in-process simulation of processes, threads,
 * unix sockets, pipes, files, clock and signals dispositions for the real
 * nanolang programs linked in as isolated images (DESIGN.md section 2). */
#ifndef NANOSIM_KERNEL_H
#define NANOSIM_KERNEL_H
#ifndef _GNU_SOURCE
#define _GNU_SOURCE
#endif
#include <stdint.h>
#include <stdbool.h>
#include <stddef.h>
#include <stdio.h>
#include <sys/types.h>

#define NOSAN __attribute__((no_sanitize("address", "undefined")))

/* ---------------- byte buffer ---------------- */
typedef struct Buf { uint8_t *d; size_t len, cap; } Buf;
void buf_put(Buf *b, const void *p, size_t n);
size_t buf_get(Buf *b, void *p, size_t n);
void buf_free(Buf *b);
void buf_printf(Buf *b, const char *fmt, ...) __attribute__((format(printf, 2, 3)));

/* ---------------- PRNG / choices ---------------- */
enum ChoiceKind { CH_SCHED = 0, CH_PREEMPT, CH_IOLEN, CH_EINTR, CH_DELAY, CH_MISC, CH_NKINDS };
void sim_seed(uint64_t seed);
uint64_t sim_rnd(void);                 /* plan-level randomness (generators) */
uint32_t sim_rndn(uint32_t n);          /* uniform in [0,n), n>=1 */
uint32_t sim_choose(int kind, uint32_t n); /* run-level choice, counted per kind */
extern uint64_t sim_choice_count[CH_NKINDS];

/* ---------------- knobs ---------------- */
typedef struct SimKnobs {
    int preempt_mean;     /* mean basic blocks between forced yields, 0 = off */
    int sched_policy;     /* 0 uniform random, 1 PCT priorities */
    int pct_depth;        /* number of priority change points */
    int sock_cap;         /* stream socket buffer capacity in bytes */
    int pipe_cap;         /* pipe capacity in bytes */
    int short_read_pm;    /* per-mille: read returns fewer bytes than available */
    int short_write_pm;   /* per-mille: write accepts fewer bytes than it could */
    int eintr_pm;         /* per-mille: read/write fails with EINTR first */
    int zombie_delay_us;  /* max delay between fd close at death and waitpid visibility */
    int accept_fail_pm;   /* per-mille: accept() on a ready listener fails with EMFILE/ENFILE/ENOMEM/ECONNABORTED first (descriptor pressure from abandoned connections) */
    int stack_mode;       /* 0 = stacks as the host gives them; v>0 = new stacks pre-filled with byte v-1 and the dead stack below the running frame overwritten with it after returns */
    int malloc_junk;      /* 0 off, else fill byte seed for allocator seam */
    uint64_t max_steps;   /* scheduling step budget for the run */
    uint64_t max_blocks;  /* basic-block budget for the run (fuel) */
    uint64_t max_sim_us;  /* stop (as quiescent) when only timers beyond this simulated time remain; 0 = no cap */
} SimKnobs;
extern SimKnobs K;
extern bool sim_time_capped;
extern int sim_stack_scribble;
extern size_t sim_stack_shift;
extern int sim_stack_junk;   /* -1 off, else byte used to pre-fill the top 2 MiB of every new task stack */

/* ---------------- images ---------------- */
typedef int (*sim_main_fn)(int, char **);
typedef struct SimImage {
    const char *name;
    sim_main_fn entry;
    char *d0, *d1, *b0, *b1;   /* live ranges of the image's private statics */
    char *pristine;            /* snapshot taken before anything ran */
    size_t size;
    struct SimProc *owner;     /* whose statics are currently loaded */
    bool race;                 /* the -fsanitize=thread build of the daemon (race.c); chosen instead of the plain one when sim_race_daemon is set */
} SimImage;
extern bool sim_race_daemon;
SimImage *sim_image(const char *name);
void sim_images_init(void);

/* ---------------- kernel objects ---------------- */
enum { F_FREE = 0, F_CAPTURE, F_NULL, F_PIPE_R, F_PIPE_W, F_SOCK, F_LISTEN, F_STREAM, F_REG };

typedef struct Pipe { Buf buf; int readers, writers; size_t cap; } Pipe;

typedef struct FsNode {
    char path[200];
    int kind;                  /* 0 regular file, 1 socket node, 2 named pipe already holding its writer's bytes (sequential reads only, no seeking, size 0) */
    Buf data;
    int links;                 /* 1 while named, 0 after unlink */
    int opens;
    struct SimFile *lock_owner;
    struct SimFile *listener;  /* for socket nodes */
    bool limit_on;             /* torn-write fault armed */
    uint64_t write_limit;      /* crash the writer once exactly this many bytes have reached the file */
    uint64_t written;
} FsNode;

typedef struct SimFile {       /* an open file description */
    int kind, refs;
    Buf *cap;                  /* F_CAPTURE */
    Pipe *pipe;                /* F_PIPE_* */
    /* sockets */
    struct SimFile *peer;
    Buf rx;
    bool peer_closed;          /* no more data will arrive */
    bool reset;                /* peer closed with unread data: ECONNRESET after rx drained */
    bool wr_dead;              /* peer gone: writes give EPIPE */
    bool shut_wr;
    size_t cap_bytes;
    char path[200];
    struct SimFile *acceptq[128]; int naccept, backlog;
    FsNode *node;              /* bound socket node / regular file */
    /* regular file */
    size_t pos; int oflags;
    bool nonblock;             /* O_NONBLOCK on this open file description */
    int id;
} SimFile;

#define SIM_MAXFD 1024
typedef struct SimProc {
    int pid, ppid;
    char name[48];
    const char *role;          /* harness label: "daemon", "client3", "cop", ... */
    SimImage *img;
    struct SimProc *share;     /* vfork child: shares parent's statics */
    char *imgdata;             /* private copy of image statics when not loaded */
    bool alive, zombie, reaped, reusable;
    int status;                /* wait status */
    uint64_t zombie_at;        /* sim time at which waitpid can see the death */
    SimFile *fds[SIM_MAXFD];
    bool sigpipe_ign;
    void (*sigterm_handler)(int);
    FILE *fout, *ferr;         /* per-process stdio streams */
    struct SimOpenFILE *files; /* SimFS FILE* opened by this process */
    /* vfork emulation */
    struct SimProc *vfork_parent; void *vfork_jb; bool in_vfork_child;
    /* environment */
    char **env; int nenv;
    char cwd[256];
    uint64_t blocks;           /* basic blocks executed (fuel accounting) */
    uint64_t syscalls;
    int exec_fail;             /* harness fault: make exec of this child fail */
} SimProc;

typedef struct SimTask SimTask;

/* ---------------- run control ---------------- */
void sim_reset(void);                                  /* fresh world (called once per run child) */
SimProc *sim_spawn(const char *role, const char *image, int argc, char **argv,
                   Buf *out_cap, Buf *err_cap, uint64_t start_at_us);
SimProc *sim_spawn_fn(const char *role, void *(*fn)(void *), void *arg, uint64_t start_at_us);
int sim_run(void);        /* 0 quiescent, 1 step budget exhausted, 2 block budget exhausted */
SimProc *sim_cur_proc(void);
SimTask *sim_cur_task(void);
uint64_t sim_now_us(void);
void sim_sleep_us(uint64_t us);                        /* for harness tasks */
void sim_yield_point(void);
void sim_block_forever(void);                          /* the calling task never runs again unless its process is killed */
SimProc *sim_find_pid(int pid);
int sim_nprocs(void); SimProc *sim_proc_at(int i);
void sim_kill_proc(SimProc *p, int sig);               /* harness-initiated kill */
int sim_proc_live_tasks(SimProc *p);
int sim_proc_tasks_stuck_on_peer(SimProc *p);
void sim_forget_dead(void);
void sim_env_set(SimProc *p, const char *kv);
extern bool sim_trace;
void sim_tracef(const char *fmt, ...) __attribute__((format(printf, 1, 2)));
void sim_event(const char *fmt, ...) __attribute__((format(printf, 1, 2)));  /* hashed into event log */
uint64_t sim_event_hash(void);
uint64_t sim_sched_hash(void);  /* hash of (task, yield kind) sequence = interleaving id */

/* exec resolution: basename -> image; harness can make a name unavailable */
void sim_exec_set_missing(const char *basename, bool missing);

/* fault hooks the families can install */
typedef struct SimHooks {
    /* called before a syscall of a process executes; return non-zero to kill the process with that signal */
    int (*pre_syscall)(SimProc *p, const char *name, int fd, size_t n);
    /* called when a process exits (status is a wait status) */
    void (*on_exit)(SimProc *p);
    /* filter on bytes written to a pipe/socket by a process: may rewrite/truncate; return bytes to deliver, or -1 no change */
    long (*write_filter)(SimProc *p, SimFile *f, const uint8_t *buf, size_t n, Buf *replacement);
    /* called after a read on a pipe/socket returned `got` bytes */
    void (*post_read)(SimProc *p, int fd, const void *buf, size_t got);
} SimHooks;
extern SimHooks sim_hooks;

/* counters (reach probes) */
typedef struct SimStats {
    uint64_t steps, switches, preempts, blocks;
    uint64_t short_reads, short_writes, eintrs, blocked_writes, blocked_reads;
    uint64_t sigpipe_kills, epipes, econnresets, eofs, conn_refused, backlog_waits;
    uint64_t forks, execs, exec_fails, waitpid_nohang_zero, kills, zombie_delays, accept_fails, fork_dup_flushes;
    uint64_t poll_timeouts, sleeps, mutex_contended, threads_created;
    uint64_t flock_contended, img_swaps;
} SimStats;
extern SimStats S;

/* ---------------- syscalls for harness-written peers ---------------- */
int k_socket(void); int k_connect_path(int fd, const char *path);
ssize_t k_read(int fd, void *buf, size_t n); ssize_t k_write(int fd, const void *buf, size_t n);
int k_close(int fd);
int k_shutdown_wr(int fd);

/* ---------------- SimFS ---------------- */
bool simfs_owns(const char *path);
FsNode *simfs_lookup(const char *path);
FsNode *simfs_create(const char *path, int kind);
void simfs_put(const char *path, const void *data, size_t n);   /* harness: create/replace file */
void simfs_unlink_node(FsNode *n);
void simfs_reset(void);

/* real-libc access for harness code (wrapping applies to the harness too) */
ssize_t __real_read(int, void *, size_t);
ssize_t __real_write(int, const void *, size_t);
int __real_close(int);
FILE *__real_fopen(const char *, const char *);
void *__real_malloc(size_t); void __real_free(void *);
void __real_exit(int) __attribute__((noreturn));
void __real__exit(int) __attribute__((noreturn));
pid_t __real_getpid(void);
pid_t __real_waitpid(pid_t, int *, int);
int __real_kill(pid_t, int);
int __real_pipe(int[2]);
int __real_usleep(unsigned);
char *__real_getenv(const char *);
int __real_open(const char *, int, ...);
int __real_dup2(int, int);
int __real_dup(int);
int __real_unlink(const char *);
int __real_poll(void *, unsigned long, int);
time_t __real_time(time_t *);

#endif
