/* conformance suite, real-kernel backend: prints the transcript of conform_cases.h */
#ifndef _GNU_SOURCE
#define _GNU_SOURCE
#endif
#include <stdio.h>
#include <stdlib.h>
#include <string.h>
#include <errno.h>
#include <unistd.h>
#include <signal.h>
#include <poll.h>
#include <fcntl.h>
#include <sys/socket.h>
#include <sys/un.h>
#include <sys/stat.h>
#include <sys/wait.h>
#include <sys/file.h>
#include <pthread.h>
#include <semaphore.h>
#include <time.h>
#ifdef CONFORM_SIM
#include "kernel.h"
Buf conform_out;
#define printf(...) buf_printf(&conform_out, __VA_ARGS__)
#endif
static char dir[128]; static char rdbuf[64];
static void mkpath(struct sockaddr_un *a, const char *n) { memset(a, 0, sizeof *a); a->sun_family = AF_UNIX; snprintf(a->sun_path, sizeof a->sun_path, "%s/%s", dir, n); }
static int SOCK(void) { return socket(AF_UNIX, SOCK_STREAM, 0); }
static int LISTEN(int fd, const char *n, int bl) { struct sockaddr_un a; mkpath(&a, n); if (bind(fd, (struct sockaddr *)&a, sizeof a) < 0) return -errno; return listen(fd, bl) < 0 ? -errno : 0; }
static int CONNECT(int fd, const char *n) { struct sockaddr_un a; mkpath(&a, n); return connect(fd, (struct sockaddr *)&a, sizeof a) < 0 ? -errno : 0; }
#ifdef CONFORM_SIM
extern int sim_connect_would_block(const char *path);
static int CONNECT_NB(int fd, const char *n) { struct sockaddr_un a; mkpath(&a, n); if (sim_connect_would_block(a.sun_path)) return -EAGAIN; return CONNECT(fd, n); }
#else
static int CONNECT_NB(int fd, const char *n) { fcntl(fd, F_SETFL, O_NONBLOCK); return CONNECT(fd, n); }
#endif
static int ACCEPT(int l) { return accept(l, NULL, NULL); }
static int WR(int fd, const char *s) { ssize_t r = send(fd, s, strlen(s), MSG_DONTWAIT | MSG_NOSIGNAL); if (r < 0 && errno == ENOTSOCK) r = write(fd, s, strlen(s)); return r < 0 ? -errno : (int)r; }
static int RD(int fd, int max) { memset(rdbuf, 0, sizeof rdbuf); struct pollfd p = { fd, POLLIN, 0 }; if (poll(&p, 1, 0) <= 0 || !p.revents) return -EAGAIN; ssize_t r = read(fd, rdbuf, (size_t)max); return r < 0 ? -errno : (int)r; }
static void CLOSE(int fd) { close(fd); }
static int DUP2(int a, int b) { return dup2(a, b); }
static int DUP(int a) { return dup(a); }
static int POLLIN_(int fd, int ms) { struct pollfd p = { fd, 0x001 /* POLLIN */, 0 }; int r = poll(&p, 1, ms); return r <= 0 ? 0 : (p.revents & 0x001); }
static int POLLREV(int fd, int ev) { struct pollfd p = { fd, (short)ev, 0 }; int r = poll(&p, 1, 0); return r < 0 ? -1 : p.revents; }
#undef POLLIN
#define POLLIN(fd, ms) POLLIN_(fd, ms)
static void UNLINK(const char *n) { char p[256]; snprintf(p, sizeof p, "%s/%s", dir, n); unlink(p); }
static void SHUTWR(int fd) { shutdown(fd, SHUT_WR); }
#define PIPE(r, w) do { int pf_[2]; if (pipe(pf_)) abort(); r = pf_[0]; w = pf_[1]; } while (0)
static void OUT(const char *l, int v) { if (v < 0) printf("%s = -%s\n", l, v == -EPIPE ? "EPIPE" : v == -ECONNRESET ? "ECONNRESET" : v == -EAGAIN ? "EAGAIN" : v == -ENOENT ? "ENOENT" : v == -ECONNREFUSED ? "ECONNREFUSED" : v == -EADDRINUSE ? "EADDRINUSE" : v == -EBADF ? "EBADF" : "OTHER"); else printf("%s = %d\n", l, v); }
static void OUTS(const char *l, const char *s) { printf("%s = \"%s\"\n", l, s); }
#include "conform_cases.h"
#ifdef CONFORM_SIM
static void *child_idle(void *a) { (void)a; sim_sleep_us(1000000000ull); return NULL; }
extern SimProc *sim_spawn_child_fn(const char *role, void *(*fn)(void *), void *arg);
void *conform_sim_task(void *arg) {
    (void)arg;
    snprintf(dir, sizeof dir, "/sim/conf");
    conformance_cases();
    SimProc *ch = sim_spawn_child_fn("child", child_idle, NULL);
    pid_t p = ch->pid; int st = 0;
    OUT("13.wnohang-running", (int)waitpid(p, &st, WNOHANG));
    kill(p, SIGKILL);
    OUT("13.kill0-zombie", kill(p, 0) < 0 ? -errno : 0);
    OUT("13.wait-after-kill", waitpid(p, &st, WNOHANG) == p); OUT("13.signaled", WIFSIGNALED(st) && WTERMSIG(st) == SIGKILL);
    OUT("13.wait-again", waitpid(p, &st, WNOHANG) < 0 && errno == ECHILD);
    OUT("13.kill0-reaped", kill(p, 0) < 0 && errno == ESRCH);
    char fp[200]; snprintf(fp, sizeof fp, "%s/lock", dir);
    int a = open(fp, O_CREAT | O_WRONLY, 0600), b = open(fp, O_CREAT | O_WRONLY, 0600);
    OUT("14.flock-first", flock(a, LOCK_EX | LOCK_NB) < 0 ? -errno : 0);
    OUT("14.flock-second", flock(b, LOCK_EX | LOCK_NB) < 0 ? (errno == EWOULDBLOCK ? -EAGAIN : -errno) : 0);
    close(a);
    OUT("14.flock-after-close", flock(b, LOCK_EX | LOCK_NB) < 0 ? -errno : 0);
    OUT("14.flock-unlock", flock(b, LOCK_UN)); close(b); unlink(fp);
    return NULL;
}
#else
int main(void) {
    signal(SIGPIPE, SIG_IGN);
    snprintf(dir, sizeof dir, "/tmp/nsconf.%d", (int)getpid()); mkdir(dir, 0700);
    conformance_cases();
    /* process cases */
    pid_t p = fork();
    if (p == 0) { pause(); _exit(0); }
    int st; OUT("13.wnohang-running", (int)waitpid(p, &st, WNOHANG));
    kill(p, SIGKILL); usleep(20000);
    OUT("13.kill0-zombie", kill(p, 0) < 0 ? -errno : 0);
    OUT("13.wait-after-kill", waitpid(p, &st, WNOHANG) == p); OUT("13.signaled", WIFSIGNALED(st) && WTERMSIG(st) == SIGKILL);
    OUT("13.wait-again", waitpid(p, &st, WNOHANG) < 0 && errno == ECHILD);
    OUT("13.kill0-reaped", kill(p, 0) < 0 && errno == ESRCH);
    /* flock */
    char fp[200]; snprintf(fp, sizeof fp, "%s/lock", dir);
    int a = open(fp, O_CREAT | O_WRONLY, 0600), b = open(fp, O_CREAT | O_WRONLY, 0600);
    OUT("14.flock-first", flock(a, LOCK_EX | LOCK_NB) < 0 ? -errno : 0);
    OUT("14.flock-second", flock(b, LOCK_EX | LOCK_NB) < 0 ? (errno == EWOULDBLOCK ? -EAGAIN : -errno) : 0);
    close(a);
    OUT("14.flock-after-close", flock(b, LOCK_EX | LOCK_NB) < 0 ? -errno : 0);
    OUT("14.flock-unlock", flock(b, LOCK_UN)); close(b); unlink(fp);
    rmdir(dir);
    return 0;
}
#endif
