/* Family "env" (C19): the real compilers (nano_virt --emit-nvm, nanoc -S) run
 * as images under a seeded environment / allocator / pid / uid / clock / cwd /
 * path-spelling seam; every configuration's outputs must equal those of
 * configuration 0.  system()/popen()/posix_spawn are stubbed (no cc). */
#include "nanosim.h"
#include <stdlib.h>
#include <string.h>
#include <dirent.h>
#include <sys/wait.h>
#include <time.h>

typedef struct Src { char name[48]; char *text; bool multi; bool bad; bool example; bool rel; bool roots; bool six; } Src;
static Src srcs[160]; static int nsrcs;
static char *slurp_text(const char *p) {
    FILE *f = __real_fopen(p, "rb"); if (!f) return NULL;
    Buf b = {0}; char t[4096]; size_t n; while ((n = fread(t, 1, sizeof t, f)) > 0) buf_put(&b, t, n);
    fclose(f); buf_put(&b, "", 1); return (char *)b.d;
}
extern void heap_gen_program(uint64_t pseed, Buf *src);
static int cmp_src(const void *a, const void *b) { return strcmp(((const Src *)a)->name, ((const Src *)b)->name); }
static void srcs_load(void) {
    if (nsrcs) return;
    const char *dirs[] = { "/verif/corpus", "/verif/corpus19", "/repo/examples/language" };
    for (int d = 0; d < 3; d++) {
        DIR *D = opendir(dirs[d]); if (!D) continue;
        struct dirent *e;
        while ((e = readdir(D)) && nsrcs < 150) {
            size_t l = strlen(e->d_name); if (l < 6 || strcmp(e->d_name + l - 5, ".nano")) continue;
            if (d == 2 && strncmp(e->d_name, "nl_", 3) != 0) continue;   /* the project's own single-file examples */
            char p[300]; snprintf(p, sizeof p, "%s/%s", dirs[d], e->d_name);
            char *t = slurp_text(p); if (!t) continue;
            if (d == 2 && (strstr(t, "\nfrom \"") || strstr(t, "\nimport ") || strncmp(t, "from ", 5) == 0 || strncmp(t, "import ", 7) == 0)) { free(t); continue; }   /* module imports need the real tree layout */
            /* @TOKEN@ -> 5 */
            Buf o = {0};
            for (char *c = t; *c;) { if (strncmp(c, "@TOKEN@", 7) == 0) { buf_put(&o, "5", 1); c += 7; } else { buf_put(&o, c, 1); c++; } }
            buf_put(&o, "", 1); free(t);
            Src *s = &srcs[nsrcs++]; memset(s, 0, sizeof *s);
            snprintf(s->name, sizeof s->name, "%.*s", (int)(l - 5), e->d_name); s->text = (char *)o.d; s->bad = strncmp(e->d_name, "bad_", 4) == 0; s->example = d == 2;
        }
        closedir(D);
    }
    Src *s = &srcs[nsrcs++]; memset(s, 0, sizeof *s); strcpy(s->name, "multi"); s->multi = true;
    s = &srcs[nsrcs++]; memset(s, 0, sizeof *s); strcpy(s->name, "multi_rel"); s->multi = true; s->rel = true;
    s = &srcs[nsrcs++]; memset(s, 0, sizeof *s); strcpy(s->name, "six"); s->multi = true; s->six = true;   /* six sibling modules, each with a top-level let */
    s = &srcs[nsrcs++]; memset(s, 0, sizeof *s); strcpy(s->name, "roots"); s->multi = true; s->roots = true;   /* imports from two directories (lib/, modules/util/), input spelled bare, with ./ and absolutely */   /* copies at two absolute locations, relative command */
    /* a program whose code section outgrows every initial buffer of the compiler (hundreds of functions) */
    { Buf b = {0};
      for (int i = 0; i < 300; i++) buf_printf(&b, "fn f%d(x: int) -> int {\n    let y: int = (+ (* x %d) %d)\n    if (> y %d) { return (- y %d) }\n    return (+ y (str_length \"s%d\"))\n}\nshadow f%d { assert (== 1 1) }\n", i, i + 2, i * 7, i * 3, i, i, i);
      buf_printf(&b, "fn main() -> int {\n    let mut acc: int = 0\n");
      for (int i = 0; i < 300; i += 7) buf_printf(&b, "    set acc (+ acc (f%d %d))\n", i, i);
      buf_printf(&b, "    (println (int_to_string acc))\n    return 0\n}\nshadow main { assert (== (main) 0) }\n"); buf_put(&b, "", 1);
      s = &srcs[nsrcs++]; memset(s, 0, sizeof *s); strcpy(s->name, "gen_big300"); s->text = (char *)b.d; }
    /* one cond expression with more clauses than any fixed-size table of pending jumps in the compiler */
    { Buf b = {0};
      buf_printf(&b, "fn code_point(k: int) -> int {\n    return (cond\n");
      for (int i = 0; i < 70; i++) buf_printf(&b, "        ((== k %d) %d)\n", i, 1000 + 7 * i);
      buf_printf(&b, "        (else (- 0 1))\n    )\n}\nshadow code_point { assert (== (code_point 0) 1000) }\nfn main() -> int {\n    (println (code_point 5))\n    (println (code_point 40))\n    return 0\n}\nshadow main { assert (== 1 1) }\n");
      buf_put(&b, "", 1);
      s = &srcs[nsrcs++]; memset(s, 0, sizeof *s); strcpy(s->name, "gen_cond70"); s->text = (char *)b.d; }
    /* 40 functions and top-level lets: the compiler-generated __init__ and the function table's reallocated part */
    { Buf b = {0};
      for (int i = 0; i < 6; i++) buf_printf(&b, "let G%d: int = %d\n", i, 10 + i * 3);
      for (int i = 0; i < 40; i++) buf_printf(&b, "fn h%d(x: int) -> int {\n    return (+ (* x %d) G%d)\n}\nshadow h%d { assert (== 1 1) }\n", i, i + 1, i % 6, i);
      buf_printf(&b, "fn main() -> int {\n    let mut acc: int = 0\n");
      for (int i = 0; i < 40; i += 3) buf_printf(&b, "    set acc (+ acc (h%d %d))\n", i, i);
      buf_printf(&b, "    (println (int_to_string acc))\n    return 0\n}\nshadow main { assert (== 1 1) }\n"); buf_put(&b, "", 1);
      s = &srcs[nsrcs++]; memset(s, 0, sizeof *s); strcpy(s->name, "gen_fn40_globals"); s->text = (char *)b.d; }
    /* many structurally equal function-type annotations, each parsed separately: whatever de-duplicates them must not depend on where they live */
    { Buf b = {0};
      buf_printf(&b, "fn add(a: int, b: int) -> int { return (+ a b) }\nshadow add { assert (== (add 1 2) 3) }\nfn mul(a: int, b: int) -> int { return (* a b) }\nshadow mul { assert (== (mul 2 3) 6) }\n");
      for (int i = 0; i < 40; i++) buf_printf(&b, "fn ap%d(f: fn(int, int) -> int, x: int) -> int {\n    return (f x %d)\n}\nshadow ap%d { assert (== 1 1) }\n", i, i + 1, i);
      for (int i = 0; i < 6; i++) buf_printf(&b, "fn un%d(g: fn(int) -> int, x: int) -> int {\n    return (g (+ x %d))\n}\nshadow un%d { assert (== 1 1) }\n", i, i, i);
      buf_printf(&b, "fn inc(x: int) -> int { return (+ x 1) }\nshadow inc { assert (== (inc 1) 2) }\nfn main() -> int {\n    let mut acc: int = 0\n");
      for (int i = 0; i < 40; i += 2) buf_printf(&b, "    set acc (+ acc (ap%d %s %d))\n", i, i % 4 ? "add" : "mul", i);
      for (int i = 0; i < 6; i++) buf_printf(&b, "    set acc (+ acc (un%d inc %d))\n", i, i);
      buf_printf(&b, "    (println (int_to_string acc))\n    return 0\n}\nshadow main { assert (== 1 1) }\n"); buf_put(&b, "", 1);
      s = &srcs[nsrcs++]; memset(s, 0, sizeof *s); strcpy(s->name, "gen_fntypes40"); s->text = (char *)b.d; }
    /* typed random programs of the heap family's generator: structs, unions, tuples, closures, maps, nested arrays */
    for (int k = 0; k < 16 && nsrcs < 150; k++) {
        Buf b = {0}; heap_gen_program((uint64_t)k * 7919 + 3, &b); buf_put(&b, "", 1);
        s = &srcs[nsrcs++]; memset(s, 0, sizeof *s); snprintf(s->name, sizeof s->name, "gen_h%02d", k); s->text = (char *)b.d;
    }
    qsort(srcs, (size_t)nsrcs, sizeof(Src), cmp_src);
}

typedef struct Cfg {
    int cwd, tmpdir, envnoise, pid, uid, junk, movere, pad, stackjunk, argv0, pathstyle, home, scribble;
    unsigned long epoch;
} Cfg;
typedef struct EPlan { char prog[48]; int tool; /* 0 nano_virt, 1 nanoc */ Cfg c; } EPlan;
static const char *CWDS[] = { "/sim/cwd", "/sim/work/a", "/sim/work/deeper/b c", "/sim/src" };
static const char *TMPS[] = { "/sim/tmp", "/sim/tmp2/x", "/sim/t" };

static void cfg_zero(Cfg *c) { memset(c, 0, sizeof *c); c->pid = 1000; c->uid = 4242; c->epoch = 1700000000ul; }
static void plan_gen(EPlan *P, uint64_t seed, const RunOpts *o) {
    (void)o;
    srcs_load();
    memset(P, 0, sizeof *P);
    sim_seed(seed); default_knobs(); K.max_blocks = 3000000000ull;
    /* consecutive seeds (same worker) share a (program, tool) pair, so that its configuration-0 reference is computed once for 6 configurations */
    Src *s = &srcs[(seed / 12) % (uint64_t)nsrcs];
    snprintf(P->prog, sizeof P->prog, "%s", s->name);
    P->tool = (int)((seed / 6) % 2);
    Cfg *c = &P->c; cfg_zero(c);
    c->cwd = (int)sim_rndn(4); c->tmpdir = (int)sim_rndn(3); c->envnoise = (int)sim_rndn(40); c->pid = 2 + (int)sim_rndn(4000000);
    c->uid = (int)sim_rndn(70000); c->junk = sim_rndn(4) ? 1 + (int)sim_rndn(255) : 0; c->movere = (int)sim_rndn(2);
    c->pad = sim_rndn(2) ? (int)sim_rndn(500) : 0; c->stackjunk = (int)sim_rndn(256); c->argv0 = (int)sim_rndn(3);
    c->pathstyle = (int)sim_rndn(4); c->home = (int)sim_rndn(3); c->epoch = 1000000000ul + sim_rndn(1000000000u);
    /* configuration 0 leaves the dead stack alone (what a returned callee left there stays, as on a real machine); three in
     * four of the others overwrite it, so output that depends on the residue of an earlier call differs between the two */
    c->scribble = sim_rndn(4) != 0;
}
static void plan_print(EPlan *P, uint64_t seed, Buf *b) {
    Cfg *c = &P->c;
    buf_printf(b, "family env\nseed %llu\nprog %s tool=%s\n", (unsigned long long)seed, P->prog, P->tool ? "nanoc" : "nano_virt");
    buf_printf(b, "config cwd=%d tmpdir=%d envnoise=%d pid=%d uid=%d junk=%d move_realloc=%d pad_pm=%d stackjunk=%d argv0=%d pathstyle=%d home=%d epoch=%lu scribble=%d\n",
               c->cwd, c->tmpdir, c->envnoise, c->pid, c->uid, c->junk, c->movere, c->pad, c->stackjunk, c->argv0, c->pathstyle, c->home, c->epoch, c->scribble);
}
static bool plan_parse(EPlan *P, uint64_t *seed, const char *path) {
    FILE *f = __real_fopen(path, "r"); if (!f) return false;
    memset(P, 0, sizeof *P); default_knobs(); K.max_blocks = 3000000000ull; cfg_zero(&P->c); P->c.scribble = 1;   /* plans written before the knob existed */
    char line[512];
    while (fgets(line, sizeof line, f)) {
        unsigned long long s; char a[48], t[16]; Cfg *c = &P->c;
        if (sscanf(line, "seed %llu", &s) == 1) *seed = s;
        else if (sscanf(line, "prog %47s tool=%15s", a, t) == 2) { snprintf(P->prog, sizeof P->prog, "%s", a); P->tool = strcmp(t, "nanoc") == 0; }
        else sscanf(line, "config cwd=%d tmpdir=%d envnoise=%d pid=%d uid=%d junk=%d move_realloc=%d pad_pm=%d stackjunk=%d argv0=%d pathstyle=%d home=%d epoch=%lu scribble=%d",
                    &c->cwd, &c->tmpdir, &c->envnoise, &c->pid, &c->uid, &c->junk, &c->movere, &c->pad, &c->stackjunk, &c->argv0, &c->pathstyle, &c->home, &c->epoch, &c->scribble);
    }
    fclose(f);
    return true;
}

/* ---------------- one compile under a configuration ---------------- */
typedef struct Outs { Buf nvm, genc, tmpc, out, err; int status; bool finished; uint64_t rawhash; /* artifacts before the spelled module path is normalised */ } Outs;
extern int alloc_junk_on, alloc_move_realloc, alloc_pad_pm; extern void alloc_seed(uint64_t);
extern void sim_set_uid(unsigned), sim_set_epoch(uint64_t), sim_set_next_pid(int);
extern Buf sim_system_log;
static void replace_all(Buf *b, const char *what, const char *with) {
    size_t wl = strlen(what); if (!wl || b->len < wl) return;
    Buf o = {0};
    for (size_t i = 0; i < b->len;) {
        if (i + wl <= b->len && memcmp(b->d + i, what, wl) == 0) { buf_put(&o, with, strlen(with)); i += wl; }
        else { buf_put(&o, b->d + i, 1); i++; }
    }
    buf_free(b); *b = o;
}
/* diagnostics pad their banner with dashes up to a fixed width, so the number of dashes depends on the length
 * of the input path as spelled: collapse every run of three or more dashes */
static void collapse_dashes(Buf *b) {
    Buf o = {0};
    for (size_t i = 0; i < b->len;) {
        if (b->d[i] == '-' ) { size_t j = i; while (j < b->len && b->d[j] == '-') j++; if (j - i >= 3) { buf_put(&o, "---", 3); i = j; continue; } }
        buf_put(&o, b->d + i, 1); i++;
    }
    buf_free(b); *b = o;
}
static void stack_fill(int junk) {
    /* leave junk where the compiler's frames will be: anything read before it is written shows up */
    volatile char pad[200000];
    for (size_t i = 0; i < sizeof pad; i++) pad[i] = (char)junk;
    (void)pad[17];
}
int __real_chdir(const char *);
static void *g_prefill_arg;
static void compile_once(EPlan *P, Cfg *c, uint64_t seed, Outs *o) {
    srcs_load();
    memset(o, 0, sizeof *o);
    Src *s = NULL; for (int i = 0; i < nsrcs; i++) if (!strcmp(srcs[i].name, P->prog)) s = &srcs[i];
    if (!s) return;
    SimKnobs saved = K; sim_reset(); K = saved; sim_seed(seed ^ 0xC19ull);
    alloc_junk_on = c->junk; alloc_move_realloc = c->movere; alloc_pad_pm = c->pad; alloc_seed(seed * 31 + (uint64_t)c->pid);
    sim_set_uid((unsigned)c->uid); sim_set_epoch(c->epoch); sim_set_next_pid(c->pid);
    sim_system_log.len = 0;
    char input[300], inabs[300];
    const char *cwd = CWDS[c->cwd % 4];
    if (s->rel) {
        /* the same tree at two different absolute locations; the command line is identical and relative */
        static const char *loc[] = { "/verif/build/c19/a/multi", "/verif/build/c19/b/some/deeper/place/multi" };
        cwd = loc[(c->cwd + c->pathstyle) % 2];
        if (__real_chdir(cwd) != 0) return;
        snprintf(input, sizeof input, "main.nano"); snprintf(inabs, sizeof inabs, "%s/main.nano", cwd);
    } else if (s->roots) {
        /* real, read-only project with modules in two directories; the input is named bare, with ./ and absolutely from the project directory */
        cwd = "/verif/corpus19/roots";
        if (__real_chdir(cwd) != 0) return;
        static const char *sp3[] = { "prog.nano", "./prog.nano", "/verif/corpus19/roots/prog.nano" };
        snprintf(input, sizeof input, "%s", sp3[c->pathstyle % 3]); snprintf(inabs, sizeof inabs, "%s", sp3[2]);
    } else if (s->six) {
        snprintf(input, sizeof input, "/verif/corpus19/six/main.nano"); snprintf(inabs, sizeof inabs, "%s", input);
    } else if (s->multi) {
        /* real, read-only source tree; spelling varies */
        const char *sp[] = { "/verif/corpus19/multi/main.nano", "/verif/corpus19/./multi/main.nano", "/verif/corpus19/multi/../multi/main.nano", "/verif//corpus19/multi/main.nano" };
        snprintf(input, sizeof input, "%s", sp[c->pathstyle % 4]); snprintf(inabs, sizeof inabs, "%s", sp[0]);
    } else {
        snprintf(inabs, sizeof inabs, "/sim/src/%s.nano", s->name);
        simfs_put(inabs, s->text, strlen(s->text));
        switch (c->pathstyle % 4) {
        case 0: snprintf(input, sizeof input, "%s", inabs); break;
        case 1: cwd = "/sim/src"; snprintf(input, sizeof input, "%s.nano", s->name); break;
        case 2: cwd = "/sim/src"; snprintf(input, sizeof input, "./%s.nano", s->name); break;
        default: cwd = "/sim/work/a"; snprintf(input, sizeof input, "../../src/%s.nano", s->name); break;
        }
    }
    static const char *A0[2][3] = { { "/repo/bin/nano_virt", "/repo/bin/../bin/nano_virt", "/repo/./bin/nano_virt" }, { "/repo/bin/nanoc", "/repo/bin/../bin/nanoc", "/repo/./bin/nanoc" } };
    char *av[10]; int ac = 0;
    av[ac++] = (char *)A0[P->tool][c->argv0 % 3]; av[ac++] = strdup(input);
    if (P->tool == 0) { av[ac++] = "--emit-nvm"; av[ac++] = "-o"; av[ac++] = "/sim/out/prog.nvm"; }
    else { av[ac++] = "-o"; av[ac++] = "/sim/out/prog"; if (!s->multi) av[ac++] = "-S"; else av[ac++] = "-fshow-intermediate-code"; }
    av[ac] = NULL;
    sim_stack_junk = c->stackjunk; sim_stack_scribble = c->scribble ? c->stackjunk : -1; sim_stack_shift = (size_t)(c->stackjunk * 977 + c->pid) % 60000;
    SimProc *p = sim_spawn(P->tool ? "nanoc" : "nano_virt", P->tool ? "nanoc" : "nano_virt", ac, av, &o->out, &o->err, 0);
    snprintf(p->cwd, sizeof p->cwd, "%s", cwd);
    char kv[300];
    snprintf(kv, sizeof kv, "TMPDIR=%s", TMPS[c->tmpdir % 3]); sim_env_set(p, kv);
    if (c->home) { snprintf(kv, sizeof kv, "HOME=%s", c->home == 1 ? "/nonexistent" : "/sim/home/u ser"); sim_env_set(p, kv); }
    snprintf(kv, sizeof kv, "PATH=/usr/bin:/bin:/opt/%d", c->envnoise); sim_env_set(p, kv);
    for (int i = 0; i < c->envnoise; i++) { snprintf(kv, sizeof kv, "NOISE_%d_%d=%0*d", i, c->pid % 97, 1 + (i * 7) % 60, i); sim_env_set(p, kv); }
    if (c->envnoise % 3 == 1) sim_env_set(p, "LANG=de_DE.UTF-8");
    /* an installed locale with a decimal comma, selected the three ways a user can select it */
    if (c->envnoise % 4 == 3) sim_env_set(p, c->envnoise % 8 == 3 ? "LC_NUMERIC=xx_XX" : c->envnoise % 16 == 7 ? "LC_ALL=xx_XX" : "LANG=xx_XX");
    if (c->envnoise % 5 == 2) sim_env_set(p, "NANO_VERBOSE_BUILD_UNRELATED=1");
    int rc = sim_run();
    o->finished = rc == 0 && !p->alive; o->status = p->status;
    FsNode *nd = simfs_lookup("/sim/out/prog.nvm"); if (nd) buf_put(&o->nvm, nd->data.d, nd->data.len);
    char gp[320]; snprintf(gp, sizeof gp, "%s.genC", inabs);
    nd = simfs_lookup(gp); if (nd) buf_put(&o->genc, nd->data.d, nd->data.len);
    extern FsNode *simfs_find_prefix(const char *prefix, const char *suffix);
    char pre[200]; snprintf(pre, sizeof pre, "%s/nanoc_", TMPS[c->tmpdir % 3]);
    nd = simfs_find_prefix(pre, ".c"); if (nd) buf_put(&o->tmpc, nd->data.d, nd->data.len);
    /* normalise what legitimately names the configuration: input spelling, tmp dir, pid */
    char pidpat[64];
    Buf *bb[2] = { &o->out, &o->err };
    for (int i = 0; i < 2; i++) {
        replace_all(bb[i], input, "<INPUT>"); replace_all(bb[i], inabs, "<INPUT>");
        snprintf(pidpat, sizeof pidpat, "nanoc_%d_", c->pid); replace_all(bb[i], pidpat, "nanoc_<PID>_");
        replace_all(bb[i], TMPS[c->tmpdir % 3], "<TMP>");
        collapse_dashes(bb[i]);
    }
    { uint64_t h = 1469598103934665603ull; Buf *raw[3] = { &o->genc, &o->tmpc, &o->nvm };
      for (int i = 0; i < 3; i++) for (size_t k = 0; k < raw[i]->len; k++) { h ^= raw[i]->d[k]; h *= 1099511628211ull; }
      o->rawhash = h; }
    if (s->roots) {
        Buf *all[4] = { &o->out, &o->err, &o->genc, &o->tmpc };
        for (int i = 0; i < 4; i++) { replace_all(all[i], "/verif/corpus19/roots/", ""); replace_all(all[i], "./lib/", "lib/"); replace_all(all[i], "./modules/", "modules/"); replace_all(all[i], "./prog.nano", "prog.nano"); }
    } else if (s->multi && !s->rel && !s->six) {
        /* the path of an imported module is embedded as spelled (module introspection): normalised here so that any
         * OTHER difference is still seen; the embedding itself is reported separately (known finding) */
        static const char *dsp[] = { "/verif/corpus19/./multi", "/verif/corpus19/multi/../multi", "/verif//corpus19/multi" };
        Buf *all[5] = { &o->out, &o->err, &o->genc, &o->tmpc, &o->nvm };
        for (int i = 0; i < 4; i++) for (int k = 0; k < 3; k++) replace_all(all[i], dsp[k], "/verif/corpus19/multi");
    }
    (void)g_prefill_arg;
}

/* reference (configuration 0) cache, zygote side */
typedef struct ERef { char key[64]; Outs o; bool have; bool slow; char crash_kind[64], crash_site[128]; } ERef;
static ERef erefs[400]; static int nerefs;
static ERef *eref_lookup(const char *key) { for (int i = 0; i < nerefs; i++) if (!strcmp(erefs[i].key, key)) return &erefs[i]; return NULL; }
typedef struct RA { EPlan *P; } RA;
static void put_buf(int fd, Buf *b) { uint32_t n = (uint32_t)b->len; ssize_t w = __real_write(fd, &n, 4); size_t off = 0; while (off < b->len) { w = __real_write(fd, b->d + off, b->len - off); if (w <= 0) break; off += (size_t)w; } }
static void eref_child(void *a, int fd) {
    RA *ra = a; Cfg c0; cfg_zero(&c0); Outs o;
    default_knobs(); K.max_blocks = 3000000000ull;
    compile_once(ra->P, &c0, 1, &o);
    uint32_t h[4] = { (uint32_t)o.status, (uint32_t)o.finished, (uint32_t)o.rawhash, (uint32_t)(o.rawhash >> 32) }; ssize_t w = __real_write(fd, h, 16); (void)w;
    put_buf(fd, &o.nvm); put_buf(fd, &o.genc); put_buf(fd, &o.tmpc); put_buf(fd, &o.out); put_buf(fd, &o.err);
}
static size_t get_buf(uint8_t *d, size_t n, size_t off, Buf *b) { if (off + 4 > n) return n + 1; uint32_t l; memcpy(&l, d + off, 4); off += 4; if (off + l > n) return n + 1; buf_put(b, d + off, l); return off + l; }
static void fam_prepare(uint64_t seed, const RunOpts *o) {
    static EPlan P; uint64_t s = seed;
    if (o->planfile) { if (!plan_parse(&P, &s, o->planfile)) return; } else plan_gen(&P, seed, o);
    char key[64]; snprintf(key, sizeof key, "%s/%d", P.prog, P.tool);
    if (eref_lookup(key) || nerefs == 400) return;
    ERef *r = &erefs[nerefs++]; memset(r, 0, sizeof *r); snprintf(r->key, sizeof r->key, "%s", key);
    RA ra = { &P }; Buf out = {0}, asan = {0}; int st = 0; char role[48];
    struct timespec t0, t1; clock_gettime(CLOCK_MONOTONIC, &t0);
    fork_collect(eref_child, &ra, &out, &st, role, sizeof role, &asan);
    clock_gettime(CLOCK_MONOTONIC, &t1);
    /* compile-time shadow tests make a few examples take seconds per compile (nl_pi_calculator: 12 s); they are left out in the quick tier */
    r->slow = strcmp(o->tier, "quick") == 0 && (t1.tv_sec - t0.tv_sec) * 1000 + (t1.tv_nsec - t0.tv_nsec) / 1000000 > 1500;
    if (!(WIFEXITED(st) && WEXITSTATUS(st) == 0)) asan_site(&asan, r->crash_kind, sizeof r->crash_kind, r->crash_site, sizeof r->crash_site);
    buf_free(&asan);
    if (WIFEXITED(st) && WEXITSTATUS(st) == 0 && out.len >= 16) {
        uint32_t h[4]; memcpy(h, out.d, 16); r->o.status = (int)h[0]; r->o.finished = h[1]; r->o.rawhash = h[2] | (uint64_t)h[3] << 32;
        size_t off = 16;
        off = get_buf(out.d, out.len, off, &r->o.nvm); off = get_buf(out.d, out.len, off, &r->o.genc); off = get_buf(out.d, out.len, off, &r->o.tmpc);
        off = get_buf(out.d, out.len, off, &r->o.out); off = get_buf(out.d, out.len, off, &r->o.err);
        r->have = off <= out.len;
    }
    buf_free(&out);
}
static bool beq(Buf *a, Buf *b) { return a->len == b->len && (a->len == 0 || memcmp(a->d, b->d, a->len) == 0); }
static size_t first_diff(Buf *a, Buf *b) { size_t n = a->len < b->len ? a->len : b->len; for (size_t i = 0; i < n; i++) if (a->d[i] != b->d[i]) return i; return n; }
static void fam_run(uint64_t seed, const RunOpts *o, Result *r) {
    static EPlan P;
    if (o->planfile) { if (!plan_parse(&P, &seed, o->planfile)) { strcpy(r->verdict, "error"); return; } r->seed = seed; }
    else plan_gen(&P, seed, o);
    plan_print(&P, seed, &r->plan);
    plan_ready(r);
    char key[64]; snprintf(key, sizeof key, "%s/%d", P.prog, P.tool);
    ERef *ref = eref_lookup(key);
    if (ref && ref->slow) { strcpy(r->verdict, "skip"); buf_printf(&r->detail, "source takes more than 1.5 s per compile (compile-time shadow tests); left to the thorough tier"); return; }
    if (ref && !ref->have && strstr(ref->crash_kind, "buffer-overflow")) {
        /* the compiler read or wrote outside one of its objects while compiling a well-formed input: what it emits then
         * depends on neighbouring memory, i.e. on the memory layout of that process */
        bool badinput = strncmp(P.prog, "bad_", 4) == 0 || strncmp(P.prog, "nl_", 3) == 0;   /* examples: compiler robustness on them is C09's business */
        if (!badinput) {
            res_violation(r, "C19", "compiler-accesses-outside-object:%s:%s:%s", P.tool ? "nanoc" : "nano_virt", ref->crash_kind, ref->crash_site);
            buf_printf(&r->detail, "%s on %s: AddressSanitizer %s in %s while compiling in configuration 0; the bytes involved end up in (or steer) the artifact, so the output is a function of memory layout\n",
                       P.tool ? "nanoc" : "nano_virt", P.prog, ref->crash_kind, ref->crash_site);
            r->nontrivial = 1; snprintf(r->class_key, sizeof r->class_key, "%s/crash", key);
            return;
        }
    }
    if (!ref || !ref->have || !ref->o.finished) { strcpy(r->verdict, "skip"); buf_printf(&r->detail, "configuration 0 did not finish (compiler crash on this input is not C19's business)"); return; }
    static Outs cur;
    compile_once(&P, &P.c, seed, &cur);
    if (__real_getenv("NANOSIM_DUMP")) { FILE *df = __real_fopen(__real_getenv("NANOSIM_DUMP"), "wb"); if (df) { fwrite(cur.nvm.d, 1, cur.nvm.len, df); fclose(df); } }
    const char *tool = P.tool ? "nanoc" : "nano_virt";
    if (!cur.finished) { res_violation(r, "C19", "compiler-did-not-finish:%s:%s", tool, P.prog); }
    else {
        struct { const char *what; Buf *a, *b; } cmp[] = { { "nvm", &ref->o.nvm, &cur.nvm }, { "genC", &ref->o.genc, &cur.genc }, { "tmp-c-file", &ref->o.tmpc, &cur.tmpc },
                                                            { "stdout", &ref->o.out, &cur.out }, { "stderr", &ref->o.err, &cur.err } };
        if (ref->o.status != cur.status) { res_violation(r, "C19", "status-differs:%s:%s", tool, P.prog); buf_printf(&r->detail, "exit status 0x%x vs 0x%x in configuration 0\n", cur.status, ref->o.status); }
        for (unsigned i = 0; i < 5; i++) if (!beq(cmp[i].a, cmp[i].b)) {
            size_t fd = first_diff(cmp[i].a, cmp[i].b);
            res_violation(r, "C19", "output-differs:%s:%s", tool, cmp[i].what);
            size_t ctx = fd > 60 ? fd - 60 : 0;
            buf_printf(&r->detail, "%s of %s on %s differs from configuration 0 (%zu vs %zu bytes, first difference at byte %zu): config0 [...%.*s] this [...%.*s]\n", cmp[i].what, tool, P.prog,
                       cmp[i].a->len, cmp[i].b->len, fd, (int)(cmp[i].a->len - ctx > 160 ? 160 : cmp[i].a->len - ctx), (char *)cmp[i].a->d + ctx,
                       (int)(cmp[i].b->len - ctx > 160 ? 160 : cmp[i].b->len - ctx), (char *)cmp[i].b->d + ctx);
        }
    }
    if (strcmp(r->verdict, "violation") != 0 && cur.finished && cur.rawhash != ref->o.rawhash) {
        /* everything is equal once the spelled module path is normalised, but the raw artifacts differ */
        res_violation(r, "C19", "module-path-embedded-as-spelled:%s", tool);
        buf_printf(&r->detail, "%s on %s: generated C / bytecode embed the path of imported modules exactly as spelled on the command line (e.g. /verif/corpus19/multi/../multi/util.nano), so the same sources reached through a different spelling give different bytes\n", tool, P.prog);
    }
    r->nontrivial = cur.finished && (cur.nvm.len || cur.genc.len || cur.tmpc.len || cur.out.len || cur.err.len);
    snprintf(r->class_key, sizeof r->class_key, "%s/%llu", key, (unsigned long long)seed);
    probe(r, P.tool ? "nanoc_compiles" : "nano_virt_compiles", 1);
    probe(r, "nvm_bytes_compared", cur.nvm.len); probe(r, "genc_bytes_compared", cur.genc.len); probe(r, "tmpc_bytes_compared", cur.tmpc.len);
    probe(r, "diag_bytes_compared", cur.err.len + cur.out.len);
    extern uint64_t alloc_count, alloc_pads; probe(r, "allocations_perturbed", alloc_count); probe(r, "padding_allocations", alloc_pads);
    if (WIFEXITED(cur.status) && WEXITSTATUS(cur.status)) probe(r, "rejected_inputs_diagnostics_compared", 1);
}
Family fam_env = { "env", fam_run, fam_prepare };
