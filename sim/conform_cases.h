/* Kernel-model conformance cases (DESIGN.md 2.3).  This file is compiled twice:
 * against the real kernel (sim/conform.c) and against the simulated kernel
 * (nanosim conform).  Both print the same transcript format; the check diffs
 * them.  Every case is single-threaded and never blocks.
 *
 * Backend macros: SOCK() LISTEN(fd,name,backlog) CONNECT(fd,name) ACCEPT(lfd)
 * WR(fd,str) RD(fd,max) CLOSE(fd) PIPE(r,w) DUP2(a,b) DUP(a) POLLIN(fd,ms)
 * UNLINK(name) SHUTWR(fd) OUT(label,int) OUTS(label,str)
 * RD returns >=0 bytes (data in rdbuf) or -errno (EAGAIN when it would block).
 */
static int conf_once_count; static void conf_once_fn(void) { conf_once_count++; }
static void conformance_cases(void) {
    int l, c, s, r, w, c2, s2;

    /* 1: peer closes with unread data -> reader sees ECONNRESET, writer EPIPE */
    l = SOCK(); OUT("1.listen", LISTEN(l, "s1", 4));
    c = SOCK(); OUT("1.connect", CONNECT(c, "s1"));
    s = ACCEPT(l); OUT("1.accept", s >= 0);
    OUT("1.write", WR(c, "abc"));
    CLOSE(s);
    OUT("1.read-after-reset", RD(c, 16));
    OUT("1.read-again", RD(c, 16));
    OUT("1.write-after-close", WR(c, "x"));
    CLOSE(c); CLOSE(l); UNLINK("s1");

    /* 2: clean close -> EOF, then EPIPE on write */
    l = SOCK(); LISTEN(l, "s2", 4); c = SOCK(); CONNECT(c, "s2"); s = ACCEPT(l);
    WR(c, "abc"); OUT("2.server-read", RD(s, 16)); OUTS("2.data", rdbuf);
    CLOSE(s);
    OUT("2.read-eof", RD(c, 16));
    OUT("2.write-epipe", WR(c, "x"));
    CLOSE(c); CLOSE(l); UNLINK("s2");

    /* 3: data then close -> data then EOF */
    l = SOCK(); LISTEN(l, "s3", 4); c = SOCK(); CONNECT(c, "s3"); s = ACCEPT(l);
    WR(s, "xyz"); CLOSE(s);
    OUT("3.read-data", RD(c, 2)); OUTS("3.data", rdbuf);
    OUT("3.read-rest", RD(c, 16)); OUTS("3.data2", rdbuf);
    OUT("3.read-eof", RD(c, 16));
    CLOSE(c); CLOSE(l); UNLINK("s3");

    /* 4: queued data is delivered before the reset is reported */
    l = SOCK(); LISTEN(l, "s4", 4); c = SOCK(); CONNECT(c, "s4"); s = ACCEPT(l);
    WR(s, "xyz"); WR(c, "q"); CLOSE(s);
    OUT("4.read-queued", RD(c, 16)); OUTS("4.data", rdbuf);
    OUT("4.read-then", RD(c, 16));
    OUT("4.read-then2", RD(c, 16));
    CLOSE(c); CLOSE(l); UNLINK("s4");

    /* 5: listener closed while a connection sits in the backlog */
    l = SOCK(); LISTEN(l, "s5", 4); c = SOCK(); OUT("5.connect", CONNECT(c, "s5"));
    OUT("5.write-unaccepted", WR(c, "hi"));
    c2 = SOCK(); OUT("5.connect2", CONNECT(c2, "s5"));
    CLOSE(l);
    OUT("5.read-wrote", RD(c, 16));
    OUT("5.write-wrote", WR(c, "x"));
    OUT("5.read-silent", RD(c2, 16));
    OUT("5.write-silent", WR(c2, "x"));
    CLOSE(c); CLOSE(c2);
    c = SOCK(); OUT("5.connect-after-close", CONNECT(c, "s5")); CLOSE(c);
    UNLINK("s5");
    c = SOCK(); OUT("5.connect-after-unlink", CONNECT(c, "s5")); CLOSE(c);

    /* 6: bind on an existing path */
    l = SOCK(); OUT("6.listen", LISTEN(l, "s6", 4)); s = SOCK(); OUT("6.bind-again", LISTEN(s, "s6", 4)); CLOSE(s); CLOSE(l); UNLINK("s6");

    /* 7: pipes */
    PIPE(r, w); OUT("7.write", WR(w, "pq")); CLOSE(w); OUT("7.read", RD(r, 16)); OUT("7.read-eof", RD(r, 16)); CLOSE(r);
    PIPE(r, w); CLOSE(r); OUT("7.write-epipe", WR(w, "x")); CLOSE(w);
    PIPE(r, w); c = DUP(w); CLOSE(w); OUT("7.read-open-writer", RD(r, 16)); CLOSE(c); OUT("7.read-all-closed", RD(r, 16)); CLOSE(r);

    /* 8: dup2 onto an open descriptor closes it */
    PIPE(r, w); PIPE(c, s); OUT("8.dup2", DUP2(s, w) == w); CLOSE(s);
    OUT("8.first-pipe-eof", RD(r, 16));
    OUT("8.write-second", WR(w, "z")); OUT("8.read-second", RD(c, 16));
    CLOSE(r); CLOSE(w); CLOSE(c);

    /* 9: poll on a listener */
    l = SOCK(); LISTEN(l, "s9", 4);
    OUT("9.poll-idle", POLLIN(l, 0));
    c = SOCK(); CONNECT(c, "s9");
    OUT("9.poll-pending", POLLIN(l, 0));
    s = ACCEPT(l);
    OUT("9.poll-after-accept", POLLIN(l, 0));
    OUT("9.poll-stream-idle", POLLIN(s, 0));
    WR(c, "m");
    OUT("9.poll-stream-data", POLLIN(s, 0));
    CLOSE(c);
    OUT("9.poll-stream-data-then-closed", POLLIN(s, 0) & 1);
    RD(s, 16);
    OUT("9.read-eof", RD(s, 16));
    CLOSE(s); CLOSE(l); UNLINK("s9");

    /* 10: half close */
    l = SOCK(); LISTEN(l, "s10", 4); c = SOCK(); CONNECT(c, "s10"); s = ACCEPT(l);
    WR(c, "req"); SHUTWR(c);
    OUT("10.server-read", RD(s, 16)); OUT("10.server-eof", RD(s, 16));
    OUT("10.server-write", WR(s, "resp")); OUT("10.client-read", RD(c, 16));
    OUT("10.client-write-after-shutdown", WR(c, "x"));
    CLOSE(c); CLOSE(s); CLOSE(l); UNLINK("s10");

    /* 11: backlog: how many connects succeed without accept (listen backlog 2) */
    l = SOCK(); LISTEN(l, "s11", 2);
    { int ok = 0, fds[8]; for (int i = 0; i < 8; i++) { fds[i] = SOCK(); if (CONNECT_NB(fds[i], "s11") == 0) ok++; else break; } OUT("11.immediate-connects", ok); for (int i = 0; i < 8; i++) if (fds[i] >= 0) CLOSE(fds[i]); }
    CLOSE(l); UNLINK("s11");

    /* 12: two independent connections do not share data */
    l = SOCK(); LISTEN(l, "s12", 4); c = SOCK(); CONNECT(c, "s12"); c2 = SOCK(); CONNECT(c2, "s12"); s = ACCEPT(l); s2 = ACCEPT(l);
    WR(c, "one"); WR(c2, "two");
    OUT("12.first", RD(s, 16)); OUTS("12.first-data", rdbuf); OUT("12.second", RD(s2, 16)); OUTS("12.second-data", rdbuf);
    CLOSE(c); CLOSE(c2); CLOSE(s); CLOSE(s2); CLOSE(l); UNLINK("s12");

    /* 15: synchronisation objects, as far as one thread can observe them */
    { pthread_mutex_t m = PTHREAD_MUTEX_INITIALIZER;
      OUT("15.mutex-lock", pthread_mutex_lock(&m)); OUT("15.mutex-trylock-held-is-EBUSY", pthread_mutex_trylock(&m) == EBUSY);
      OUT("15.mutex-unlock", pthread_mutex_unlock(&m)); OUT("15.mutex-trylock-free", pthread_mutex_trylock(&m)); pthread_mutex_unlock(&m); }
    { static pthread_once_t once = PTHREAD_ONCE_INIT; conf_once_count = 0;
      OUT("15.once-first", pthread_once(&once, conf_once_fn)); OUT("15.once-second", pthread_once(&once, conf_once_fn)); OUT("15.once-ran", conf_once_count); }
    { sem_t sm; OUT("15.sem-init", sem_init(&sm, 0, 2)); OUT("15.sem-try1", sem_trywait(&sm)); OUT("15.sem-wait2", sem_wait(&sm));
      OUT("15.sem-try-empty-is-EAGAIN", sem_trywait(&sm) < 0 && errno == EAGAIN); OUT("15.sem-post", sem_post(&sm)); OUT("15.sem-try-after-post", sem_trywait(&sm)); sem_destroy(&sm); }
    { pthread_mutex_t m = PTHREAD_MUTEX_INITIALIZER; pthread_cond_t cv = PTHREAD_COND_INITIALIZER; struct timespec ts;
      pthread_mutex_lock(&m); OUT("15.cond-signal-nobody", pthread_cond_signal(&cv)); OUT("15.cond-broadcast-nobody", pthread_cond_broadcast(&cv));
      clock_gettime(CLOCK_REALTIME, &ts); ts.tv_nsec += 2000000; if (ts.tv_nsec >= 1000000000) { ts.tv_nsec -= 1000000000; ts.tv_sec++; }
      OUT("15.cond-timedwait-is-ETIMEDOUT", pthread_cond_timedwait(&cv, &m, &ts) == ETIMEDOUT);
      OUT("15.mutex-held-again-after-wait", pthread_mutex_trylock(&m) == EBUSY); pthread_mutex_unlock(&m); }
    { pthread_spinlock_t sl; pthread_spin_init(&sl, PTHREAD_PROCESS_PRIVATE);
      OUT("15.spin-lock", pthread_spin_lock(&sl)); OUT("15.spin-trylock-held-is-EBUSY", pthread_spin_trylock(&sl) == EBUSY); OUT("15.spin-unlock", pthread_spin_unlock(&sl));
      OUT("15.spin-trylock-free", pthread_spin_trylock(&sl)); pthread_spin_unlock(&sl); }
    { pthread_rwlock_t rw = PTHREAD_RWLOCK_INITIALIZER;
      OUT("15.rw-rdlock", pthread_rwlock_rdlock(&rw)); OUT("15.rw-second-reader", pthread_rwlock_tryrdlock(&rw)); OUT("15.rw-writer-while-read-is-EBUSY", pthread_rwlock_trywrlock(&rw) == EBUSY);
      pthread_rwlock_unlock(&rw); pthread_rwlock_unlock(&rw);
      OUT("15.rw-wrlock", pthread_rwlock_wrlock(&rw)); OUT("15.rw-reader-while-written-is-EBUSY", pthread_rwlock_tryrdlock(&rw) == EBUSY); OUT("15.rw-unlock", pthread_rwlock_unlock(&rw));
      OUT("15.rw-trywrlock-free", pthread_rwlock_trywrlock(&rw)); pthread_rwlock_unlock(&rw); }
    OUT("15.self-equal", pthread_equal(pthread_self(), pthread_self()) != 0);

    /* 16: what poll() says about pipes whose other end is gone */
    PIPE(r, w); OUT("16.poll-empty-pipe", POLLREV(r, 0x001)); WR(w, "ab"); OUT("16.poll-data", POLLREV(r, 0x001)); CLOSE(w);
    OUT("16.poll-data-writer-gone", POLLREV(r, 0x001)); RD(r, 16); OUT("16.poll-drained-writer-gone", POLLREV(r, 0x001)); CLOSE(r);
    PIPE(r, w); OUT("16.poll-writable", POLLREV(w, 0x004)); CLOSE(r); OUT("16.poll-writer-reader-gone", POLLREV(w, 0x004)); CLOSE(w);
    l = SOCK(); LISTEN(l, "s16", 4); c = SOCK(); CONNECT(c, "s16"); s = ACCEPT(l);
    OUT("16.poll-stream-idle", POLLREV(c, 0x001)); CLOSE(s); OUT("16.poll-stream-peer-closed", POLLREV(c, 0x001) & 0x011);
    CLOSE(c); CLOSE(l); UNLINK("s16");
}
