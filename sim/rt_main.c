/* nanosim_rt (C20, runtime half): seeded operation histories over the native
 * runtime containers (dyn_array of every element kind, gc retain/release,
 * gc strings) against a list model, under an allocator seam (junk fill,
 * always-moving realloc, stale recycling of freed object headers) and with the
 * collector's trigger pulled inside arbitrary gc_alloc calls.
 * Built twice: ASan+UBSan (no recovery), and plain for valgrind.
 *
 *   nanosim_rt run rt --seeds A:B [--tier quick|thorough] [--sub c20]
 *   nanosim_rt replay rt --plan FILE
 */
#ifndef _GNU_SOURCE
#define _GNU_SOURCE
#endif
#include <stdio.h>
#include <fcntl.h>
#include <stdlib.h>
#include <string.h>
#include <stdint.h>
#include <stdbool.h>
#include <stdarg.h>
#include <unistd.h>
#include <signal.h>
#include <malloc.h>
#include <sys/wait.h>
#include <sys/mman.h>
#include "runtime/dyn_array.h"
#include "runtime/gc.h"
#include "runtime/list_int.h"
#include "runtime/list_string.h"
#include "runtime/nl_string.h"
/* the C text nanoc emits into every native program (string formatting, string builtins, array helpers), generated at
 * build time from the working tree by prelude_gen; compiled here with the sanitizers and driven by the em_* operations */
#include <assert.h>
#include <math.h>
#include <ctype.h>
#include <limits.h>
#include <time.h>
#include "emitted_prelude.inc"

#ifndef RT_PLAIN
#include <sanitizer/common_interface_defs.h>
__attribute__((used)) const char *__asan_default_options(void) {
    return "detect_leaks=0:exitcode=77:allocator_may_return_null=1:handle_abort=1:detect_stack_use_after_return=0";
}
__attribute__((used)) const char *__ubsan_default_options(void) { return "halt_on_error=1:print_stacktrace=1:exitcode=78"; }
#endif

/* ---------------- allocator seam ---------------- */
void *__real_malloc(size_t); void *__real_calloc(size_t, size_t); void *__real_realloc(void *, size_t); void __real_free(void *);
static int seam_on, junk_byte, move_realloc, stale_recycle, stale_image; static void *poison_ptr; static uint64_t n_alloc, n_recycled;
#define NCACHE 8
static struct { void *p; size_t n; } cache[NCACHE]; static int ncache;
static size_t hdr_obj_size;   /* size of a GC array object: recycled stale like a LIFO allocator would */
void *__wrap_malloc(size_t n) {
    if (!seam_on) return __real_malloc(n);
    n_alloc++;
    if (stale_recycle) for (int i = ncache - 1; i >= 0; i--) if (cache[i].n == n) { void *p = cache[i].p; cache[i] = cache[--ncache]; n_recycled++; return p; }
    void *p = __real_malloc(n);
    if (p && junk_byte) memset(p, junk_byte, n);
    if (p && stale_image && hdr_obj_size && n == hdr_obj_size) {
        /* fresh memory is whatever its previous owner left there; here it is the image of an array of arrays whose element
         * store has long been freed.  Code that looks at a new object before initialising it walks into that store. */
        if (!poison_ptr) { poison_ptr = __real_malloc(64); __real_free(poison_ptr); }
        DynArray img; memset(&img, 0, sizeof img);
        img.length = 3; img.capacity = 8; img.elem_type = ELEM_ARRAY; img.elem_size = (uint8_t)sizeof(void *); img.data = poison_ptr;
        memcpy((char *)p + sizeof(GCHeader), &img, sizeof img);
    }
    return p;
}
void *__wrap_calloc(size_t a, size_t b) { return __real_calloc(a, b); }
void __wrap_free(void *p) {
    if (!p) return;
    if (seam_on && stale_recycle && hdr_obj_size) {
        size_t us = malloc_usable_size(p);
        if (us >= hdr_obj_size && us < hdr_obj_size + 16 && ncache < NCACHE) { cache[ncache].p = p; cache[ncache].n = hdr_obj_size; ncache++; return; }
    }
    __real_free(p);
}
void *__wrap_realloc(void *p, size_t n) {
    if (!seam_on || !p) return p ? __real_realloc(p, n) : __wrap_malloc(n);
    if (move_realloc) {
        size_t old = malloc_usable_size(p);
        void *q = __real_malloc(n); if (!q) return NULL;
        if (junk_byte) memset(q, junk_byte, n);
        memcpy(q, p, old < n ? old : n);
        __real_free(p);
        return q;
    }
    return __real_realloc(p, n);
}

/* ---------------- PRNG ---------------- */
static uint64_t rs;
static uint64_t rnd(void) { uint64_t z = (rs += 0x9E3779B97F4A7C15ull); z = (z ^ (z >> 30)) * 0xBF58476D1CE4E5B9ull; z = (z ^ (z >> 27)) * 0x94D049BB133111EBull; return z ^ (z >> 31); }
static uint32_t rn(uint32_t n) { return n > 1 ? (uint32_t)(rnd() % n) : 0; }

/* ---------------- model ---------------- */
enum { K_INT, K_U8, K_FLOAT, K_BOOL, K_STRING, K_ARRAY, K_STRUCT, NKINDS };
static const char *kname[] = { "int", "u8", "float", "bool", "string", "array", "struct" };
static const ElementType ktype[] = { ELEM_INT, ELEM_U8, ELEM_FLOAT, ELEM_BOOL, ELEM_STRING, ELEM_ARRAY, ELEM_STRUCT };
static const int SSIZES[] = { 1, 4, 8, 12, 24, 72, 200 };
#define NSSIZES 7
#define MAXA 6
#define MAXLEN 160
typedef struct MVal { int64_t i; double f; const char *s; void *a; uint8_t st[200]; } MVal;
typedef struct MArr { bool live; int kind, ssize, rc; DynArray *d; int len; MVal v[MAXLEN]; } MArr;
static MArr A[MAXA];
static const char *STRS[] = { "", "a", "hello", "nanolang", "x y z", "0123456789abcdef0123456789abcdef" };
static int live_objects;   /* model: gc objects with refcount > 0 */
static volatile uint64_t rt_calls;   /* basic blocks of runtime code executed (the runtime objects are built with trace-pc) */
__attribute__((no_sanitize("address", "undefined"))) void __sanitizer_cov_trace_pc(void) { rt_calls++; }
static int op_fired[64];   /* per operation kind: how often it got past its preconditions and changed or checked something */
static void *ballast[4]; static int nballast;

enum { OP_NEW, OP_NEWCAP, OP_PUSH, OP_POP, OP_GET, OP_SET, OP_INSERT, OP_REMOVE, OP_CLEAR, OP_RESERVE, OP_CLONE, OP_RETAIN, OP_RELEASE, OP_BALLAST, OP_COLLECT, OP_GCSTR,
       OP_LI_NEW, OP_LI_PUSH, OP_LI_POP, OP_LI_INSERT, OP_LI_REMOVE, OP_LI_SET, OP_LI_CLEAR, OP_LI_FREE,
       OP_LS_NEW, OP_LS_PUSH, OP_LS_POP, OP_LS_INSERT, OP_LS_REMOVE, OP_LS_SET, OP_LS_CLEAR, OP_LS_FREE,
       OP_NS_NEW, OP_NS_CONCAT, OP_NS_SUBSTR, OP_NS_CLONE, OP_NS_RESERVE, OP_NS_FREE, OP_NS_UTF8, OP_GC_RESTART, OP_GCSTR_HOLD, OP_GCSTR_DROP,
       OP_PUSH_SELF, OP_SET_SELF, OP_LS_SET_SELF, OP_RETAIN_MANY,
       OP_NS_CSTR, OP_NS_FROM_UTF8, OP_NS_WITHCAP, OP_WRAP, OP_WRAP_DROP,
       OP_EM_FSB, OP_EM_TOSTR, OP_EM_STR, OP_EM_SLICE, NOPS };
static const char *opname[] = { "new", "new_with_capacity", "push", "pop", "get", "set", "insert", "remove_at", "clear", "reserve", "clone", "retain", "release", "ballast", "collect", "gc_string",
       "li_new", "li_push", "li_pop", "li_insert", "li_remove", "li_set", "li_clear", "li_free",
       "ls_new", "ls_push", "ls_pop", "ls_insert", "ls_remove", "ls_set", "ls_clear", "ls_free",
       "ns_new", "ns_concat", "ns_substring", "ns_clone", "ns_reserve", "ns_free", "ns_utf8", "gc_restart", "gc_string_hold", "gc_string_drop",
       "push_own_element", "set_from_own_element", "ls_set_from_own_element", "retain_release_many",
       "ns_to_cstr", "ns_from_utf8", "ns_with_capacity", "wrap_external", "wrapped_drop",
       "em_fmt_sb", "em_to_string_array", "em_str_builtins", "em_array_slice" };
/* generated list types and byte strings: two slots each, modelled by plain C arrays */
#define LMAX 300
static struct { List_int *l; int n; int64_t v[LMAX]; } LI[2];
static struct { List_string *l; int n; const char *v[LMAX]; } LS[2];
static struct { nl_string_t *s; size_t n; uint8_t v[4096]; } NS[3];
static void lists_check(const char *after, int opi);
static char *held[3]; static size_t heldlen[3];
/* external pointers wrapped in GC objects: the user finalizer must run exactly once, when the last owner lets go */
static struct { void *w; void *ext; int fin_at_wrap; bool opaque; } WR[3]; static int fin_calls; static void *fin_last;
static void wr_finalizer(void *p) { fin_calls++; fin_last = p; free(p); }
static void op_finalizer(void *p) { fin_calls++; fin_last = p; }
static bool utf8_ref(const uint8_t *d, size_t n, long *count);
static void viol(const char *sig, const char *fmt, ...);
/* emitted format string builders: two slots, modelled by a byte array */
static struct { bool live; nl_fmt_sb_t sb; size_t n; char v[8192]; } FSB[2];
static void fsb_check(int k, int i) {
    nl_fmt_sb_t *b = &FSB[k].sb;
    if (!b->buf) { viol("em-fmt-sb-lost-buffer", "op %d: emitted string builder %d has no buffer", i, k); return; }
    if (b->len != FSB[k].n) { viol("em-fmt-sb-length", "op %d: emitted string builder %d holds %zu bytes, model %zu", i, k, b->len, FSB[k].n); return; }
    if (b->len + 1 > b->cap) { viol("em-fmt-sb-capacity", "op %d: emitted string builder %d: length %zu and its terminator do not fit capacity %zu", i, k, b->len, b->cap); return; }
    const char *r = nl_fmt_sb_build(b);
    if (memcmp(r, FSB[k].v, FSB[k].n) != 0 || r[FSB[k].n] != 0) viol("em-fmt-sb-contents", "op %d: emitted string builder %d does not hold the %zu appended bytes followed by NUL", i, k, FSB[k].n);
}
typedef struct Op { int op, arr, kind; long x, y; } Op;
typedef struct Plan { uint64_t seed; int junk, movere, stale, thresh, image; int nops; Op ops[256]; } Plan;

static char vmsg[400]; static char vsig[120];
static void viol(const char *sig, const char *fmt, ...) {
    if (vsig[0]) return;
    snprintf(vsig, sizeof vsig, "%s", sig);
    va_list ap; va_start(ap, fmt); vsnprintf(vmsg, sizeof vmsg, fmt, ap); va_end(ap);
}
static MVal mkval(int kind, long x, int ssize) {
    MVal v; memset(&v, 0, sizeof v);
    switch (kind) {
    case K_INT: v.i = x % 7 == 0 ? INT64_MIN + x : x * 1000003 - 17; break;
    case K_U8: v.i = (uint8_t)x; break;
    case K_FLOAT: v.f = x % 5 == 0 ? -0.0 : (double)x * 0.25 - 3.0; break;
    case K_BOOL: v.i = x & 1; break;
    case K_STRING: v.s = STRS[(unsigned long)x % 6]; break;
    case K_STRUCT: for (int i = 0; i < ssize; i++) v.st[i] = (uint8_t)(x * 13 + i * 7 + 1); break;
    default: break;
    }
    return v;
}
static bool valeq(int kind, int ssize, MVal *m, DynArray *d, int idx) {
    switch (kind) {
    case K_INT: return dyn_array_get_int(d, idx) == m->i;
    case K_U8: return dyn_array_get_u8(d, idx) == (uint8_t)m->i;
    case K_FLOAT: { double g = dyn_array_get_float(d, idx); return memcmp(&g, &m->f, 8) == 0; }
    case K_BOOL: return dyn_array_get_bool(d, idx) == (bool)m->i;
    case K_STRING: return dyn_array_get_string(d, idx) == m->s;
    case K_ARRAY: return dyn_array_get_array(d, idx) == m->a;
    case K_STRUCT: { void *p = dyn_array_get_struct(d, idx); return p && memcmp(p, m->st, (size_t)ssize) == 0; }
    }
    return false;
}
static uint64_t n_checks;
static void check_all(const char *after, int opi) {
    for (int a = 0; a < MAXA; a++) if (A[a].live) {
        MArr *m = &A[a]; DynArray *d = m->d;
        n_checks++;
        if (dyn_array_length(d) != m->len) { viol("length-differs", "after op %d (%s): array %d (%s) length %lld, model %d", opi, after, a, kname[m->kind], (long long)dyn_array_length(d), m->len); return; }
        if (d->length > d->capacity) { viol("length-exceeds-capacity", "after op %d (%s): array %d length %lld > capacity %lld", opi, after, a, (long long)d->length, (long long)d->capacity); return; }
        if (m->kind != K_STRUCT || m->len > 0) if (dyn_array_get_elem_type(d) != ktype[m->kind]) { viol("elem-type-differs", "after op %d (%s): array %d element type %d, model %s", opi, after, a, (int)dyn_array_get_elem_type(d), kname[m->kind]); return; }
        for (int i = 0; i < m->len; i++) if (!valeq(m->kind, m->ssize, &m->v[i], d, i)) { viol("contents-differ", "after op %d (%s): array %d (%s) element %d differs from the model list", opi, after, a, kname[m->kind], i); return; }
    }
    for (int k = 0; k < 3; k++) if (held[k]) {
        if (strlen(held[k]) != heldlen[k]) { viol("gc-string-corrupted", "after op %d (%s): held gc string %d has length %zu, model %zu", opi, after, k, strlen(held[k]), heldlen[k]); return; }
        for (size_t j = 0; j < heldlen[k]; j++) if (held[k][j] < 'a' || held[k][j] > 'z') { viol("gc-string-corrupted", "after op %d (%s): held gc string %d byte %zu clobbered", opi, after, k, j); return; }
    }
    GCStats st = gc_get_stats();
    if ((int)st.num_objects != live_objects) viol("live-object-count-differs", "after op %d (%s): gc reports %zu live objects, model %d", opi, after, st.num_objects, live_objects);
}
static void do_push(MArr *m, MVal *v) {
    switch (m->kind) {
    case K_INT: m->d = dyn_array_push_int(m->d, v->i); break;
    case K_U8: m->d = dyn_array_push_u8(m->d, (uint8_t)v->i); break;
    case K_FLOAT: m->d = dyn_array_push_float(m->d, v->f); break;
    case K_BOOL: m->d = dyn_array_push_bool(m->d, (bool)v->i); break;
    case K_STRING: m->d = dyn_array_push_string(m->d, v->s); break;
    case K_ARRAY: m->d = dyn_array_push_array(m->d, v->a); break;
    case K_STRUCT: m->d = dyn_array_push_struct(m->d, v->st, (size_t)m->ssize); break;
    }
}
/* UTF-8 oracle on one string slot.  First what the string believes about itself (the cached flag the utf8_* calls trust):
 * a string that answers a length must really be valid and have that many characters, and decoding its last character
 * must stay inside it.  Then the validator against the reference validator, and the calls again. */
static void utf8_oracle(int a1, Op *o, int i) {
    if (a1 < 0 || !NS[a1].s) return;
    long cnt = 0; bool want = utf8_ref(NS[a1].v, NS[a1].n, &cnt);
    long long bel = (long long)nl_string_utf8_length(NS[a1].s);
    if (bel >= 0) {
        if (!want) { viol("utf8-believed-valid", "op %d: a %zu-byte string that is not valid UTF-8 answers utf8_length=%lld without having been validated", i, NS[a1].n, bel); return; }
        if (bel != cnt) { viol("utf8-length-differs", "op %d: utf8_length %lld, reference %ld", i, bel, cnt); return; }
        if (bel > 0) { (void)nl_string_utf8_char_at(NS[a1].s, (size_t)(bel - 1)); (void)nl_string_utf8_char_at(NS[a1].s, (size_t)(o->x % bel)); }
    }
    bool got = nl_string_validate_utf8(NS[a1].s);
    if (got != want) { viol("utf8-validity-differs", "op %d: nl_string_validate_utf8 says %d, reference says %d for a %zu-byte string", i, got, want, NS[a1].n); return; }
    if (want) {
        if (nl_string_utf8_length(NS[a1].s) != cnt) { viol("utf8-length-differs", "op %d: utf8_length %lld, reference %ld", i, (long long)nl_string_utf8_length(NS[a1].s), cnt); return; }
        if (cnt > 0) { (void)nl_string_utf8_char_at(NS[a1].s, (size_t)(o->x % cnt)); (void)nl_string_utf8_char_at(NS[a1].s, (size_t)(cnt - 1));
            nl_string_t *sub = nl_string_utf8_substring(NS[a1].s, (size_t)(o->x % cnt), (size_t)(o->y % (cnt + 1))); if (sub) nl_string_free(sub); }
    }
}
static void lists_check(const char *after, int opi) {
    for (int k = 0; k < 2; k++) {
        if (LI[k].l) { n_checks++;
            if (list_int_length(LI[k].l) != LI[k].n) { viol("list-length-differs", "after op %d (%s): List_int %d length %d, model %d", opi, after, k, list_int_length(LI[k].l), LI[k].n); return; }
            if (LI[k].l->length > LI[k].l->capacity) { viol("list-length-exceeds-capacity", "after op %d (%s): List_int %d", opi, after, k); return; }
            for (int j = 0; j < LI[k].n; j++) if (list_int_get(LI[k].l, j) != LI[k].v[j]) { viol("list-contents-differ", "after op %d (%s): List_int %d element %d differs from the model list", opi, after, k, j); return; } }
        if (LS[k].l) { n_checks++;
            if (list_string_length(LS[k].l) != LS[k].n) { viol("list-length-differs", "after op %d (%s): List_string %d length %d, model %d", opi, after, k, list_string_length(LS[k].l), LS[k].n); return; }
            for (int j = 0; j < LS[k].n; j++) { char *g = list_string_get(LS[k].l, j); if (!g || strcmp(g, LS[k].v[j])) { viol("list-contents-differ", "after op %d (%s): List_string %d element %d differs from the model list", opi, after, k, j); return; } } }
    }
    for (int k = 0; k < 3; k++) if (NS[k].s) { n_checks++;
        if (nl_string_length(NS[k].s) != NS[k].n) { viol("string-length-differs", "after op %d (%s): nl_string %d length %zu, model %zu", opi, after, k, nl_string_length(NS[k].s), NS[k].n); return; }
        for (size_t j = 0; j < NS[k].n; j++) if ((uint8_t)nl_string_byte_at(NS[k].s, j) != NS[k].v[j]) { viol("string-contents-differ", "after op %d (%s): nl_string %d byte %zu differs from the model", opi, after, k, j); return; } }
}
static bool utf8_ref(const uint8_t *d, size_t n, long *count) {
    size_t i = 0; long c = 0;
    while (i < n) {
        uint8_t b = d[i]; int l = (b & 0x80) == 0 ? 1 : (b & 0xE0) == 0xC0 ? 2 : (b & 0xF0) == 0xE0 ? 3 : (b & 0xF8) == 0xF0 ? 4 : 0;
        if (!l || i + (size_t)l > n) return false;
        for (int j = 1; j < l; j++) if ((d[i + (size_t)j] & 0xC0) != 0x80) return false;
        i += (size_t)l; c++;
    }
    *count = c; return true;
}
static int pick_live(long x) { int c = 0; for (int i = 0; i < MAXA; i++) c += A[i].live; if (!c) return -1; int k = (int)((unsigned long)x % (unsigned)c); for (int i = 0; i < MAXA; i++) if (A[i].live && k-- == 0) return i; return -1; }

static void run_plan(Plan *P) {
    memset(held, 0, sizeof held); memset(WR, 0, sizeof WR); fin_calls = 0; memset(A, 0, sizeof A); memset(LI, 0, sizeof LI); memset(LS, 0, sizeof LS); memset(NS, 0, sizeof NS); live_objects = 0; nballast = 0; vsig[0] = vmsg[0] = 0; n_checks = 0;
    memset(FSB, 0, sizeof FSB);
    junk_byte = P->junk; move_realloc = P->movere; stale_recycle = P->stale; stale_image = P->image; ncache = 0;
    hdr_obj_size = sizeof(GCHeader) + sizeof(DynArray);
    gc_init();
    if (P->thresh) gc_set_threshold((size_t)P->thresh);
    seam_on = 1;
    for (int i = 0; i < P->nops && !vsig[0]; i++) {
        Op *o = &P->ops[i];
        int a = o->arr % MAXA;
        MArr *m = &A[a];
        int u8slot = -1;
        uint64_t calls_before = rt_calls, alloc_before = n_alloc;
        switch (o->op) {
        case OP_NEW: case OP_NEWCAP:
            if (m->live) break;
            memset(m, 0, sizeof *m); m->kind = o->kind % NKINDS; m->ssize = SSIZES[(unsigned long)o->y % NSSIZES];
            m->d = o->op == OP_NEW ? dyn_array_new(ktype[m->kind]) : dyn_array_new_with_capacity(ktype[m->kind], o->x % 64);
            if (!m->d) break;
            m->live = true; m->rc = 1; live_objects++;
            break;
        case OP_PUSH: {
            int t = pick_live(o->arr); if (t < 0) break; m = &A[t];
            int reps = 1 + (int)(o->y % 20);
            for (int r = 0; r < reps && m->len < MAXLEN; r++) {
                MVal v = mkval(m->kind, o->x + r, m->ssize);
                if (m->kind == K_ARRAY) { int c = pick_live(o->x + r); if (c < 0) break; v.a = A[c].d; }
                do_push(m, &v); m->v[m->len++] = v;
            }
            break; }
        case OP_POP: {
            int t = pick_live(o->arr); if (t < 0) break; m = &A[t];
            for (int rep = 0, reps = 1 + (int)(o->y % 25); rep < reps && !vsig[0]; rep++) {   /* drains are common: fill-and-drain cycles */
            bool ok = false;
            switch (m->kind) {
            case K_INT: { int64_t g = dyn_array_pop_int(m->d, &ok); if (ok && g != m->v[m->len - 1].i) viol("pop-wrong-value", "op %d: pop_int returned a value that is not the last element", i); break; }
            case K_U8: { uint8_t g = dyn_array_pop_u8(m->d, &ok); if (ok && g != (uint8_t)m->v[m->len - 1].i) viol("pop-wrong-value", "op %d: pop_u8", i); break; }
            case K_FLOAT: { double g = dyn_array_pop_float(m->d, &ok); if (ok && memcmp(&g, &m->v[m->len - 1].f, 8)) viol("pop-wrong-value", "op %d: pop_float", i); break; }
            case K_BOOL: { bool g = dyn_array_pop_bool(m->d, &ok); if (ok && g != (bool)m->v[m->len - 1].i) viol("pop-wrong-value", "op %d: pop_bool", i); break; }
            case K_STRING: { const char *g = dyn_array_pop_string(m->d, &ok); if (ok && g != m->v[m->len - 1].s) viol("pop-wrong-value", "op %d: pop_string", i); break; }
            case K_ARRAY: { DynArray *g = dyn_array_pop_array(m->d, &ok); if (ok && g != m->v[m->len - 1].a) viol("pop-wrong-value", "op %d: pop_array", i); break; }
            case K_STRUCT: { uint8_t buf[200]; if (m->len == 0) break; dyn_array_pop_struct(m->d, buf, (size_t)m->ssize, &ok); if (ok && memcmp(buf, m->v[m->len - 1].st, (size_t)m->ssize)) viol("pop-wrong-value", "op %d: pop_struct", i); break; }
            }
            if (ok != (m->len > 0) && m->kind != K_STRUCT) viol("pop-success-flag", "op %d: pop success=%d on array of length %d", i, ok, m->len);
            if (ok) m->len--;
            if (!ok) break;
            }
            break; }
        case OP_GET: { int t = pick_live(o->arr); if (t < 0) break; m = &A[t]; if (!m->len) break; int idx = (int)((unsigned long)o->x % (unsigned)m->len);
            if (!valeq(m->kind, m->ssize, &m->v[idx], m->d, idx)) viol("get-wrong-value", "op %d: get(%d) on array %d (%s) differs from the model", i, idx, t, kname[m->kind]); break; }
        case OP_SET: { int t = pick_live(o->arr); if (t < 0) break; m = &A[t]; if (!m->len) break; int idx = (int)((unsigned long)o->x % (unsigned)m->len);
            MVal v = mkval(m->kind, o->y, m->ssize);
            switch (m->kind) {
            case K_INT: dyn_array_set_int(m->d, idx, v.i); break; case K_U8: dyn_array_set_u8(m->d, idx, (uint8_t)v.i); break;
            case K_FLOAT: dyn_array_set_float(m->d, idx, v.f); break; case K_BOOL: dyn_array_set_bool(m->d, idx, (bool)v.i); break;
            case K_STRING: dyn_array_set_string(m->d, idx, v.s); break;
            case K_ARRAY: { int c = pick_live(o->y); if (c < 0) goto skip; v.a = A[c].d; dyn_array_set_array(m->d, idx, v.a); break; }
            case K_STRUCT: dyn_array_set_struct(m->d, idx, v.st, (size_t)m->ssize); break;
            }
            m->v[idx] = v;
            skip: break; }
        case OP_INSERT: break;   /* declared in dyn_array.h but not implemented in the tree */
        case OP_REMOVE: { int t = pick_live(o->arr); if (t < 0) break; m = &A[t]; if (!m->len) break; int idx = (int)((unsigned long)o->x % (unsigned)m->len);
            m->d = dyn_array_remove_at(m->d, idx); memmove(&m->v[idx], &m->v[idx + 1], sizeof(MVal) * (size_t)(m->len - idx - 1)); m->len--; break; }
        case OP_CLEAR: { int t = pick_live(o->arr); if (t < 0) break; dyn_array_clear(A[t].d); A[t].len = 0; break; }
        case OP_RESERVE: { int t = pick_live(o->arr); if (t < 0) break; dyn_array_reserve(A[t].d, o->x % 1000); break; }
        case OP_CLONE: { int t = pick_live(o->arr); if (t < 0) break; int free_slot = -1; for (int k = 0; k < MAXA; k++) if (!A[k].live) free_slot = k; if (free_slot < 0) break;
            DynArray *c = dyn_array_clone(A[t].d); if (!c) break;
            A[free_slot] = A[t]; A[free_slot].d = c; A[free_slot].rc = 1; live_objects++; break; }
        case OP_RETAIN: { int t = pick_live(o->arr); if (t < 0) break; gc_retain(A[t].d); A[t].rc++; break; }
        case OP_RELEASE: { int t = pick_live(o->arr); if (t < 0) break; m = &A[t];
            /* nobody else may still point at an array that is about to die (the model has no dangling references) */
            if (m->rc == 1) { bool used = false; for (int k = 0; k < MAXA; k++) if (A[k].live && A[k].kind == K_ARRAY) for (int e = 0; e < A[k].len; e++) if (A[k].v[e].a == m->d) used = true; if (used) break; }
            gc_release(m->d); if (--m->rc == 0) { m->live = false; live_objects--; } break; }
        case OP_BALLAST:
            /* push usage over the trigger without collecting now, so that the NEXT gc_alloc (inside dyn_array_new / clone / gc_alloc_string) collects */
            if (nballast == 4) { gc_release(ballast[--nballast]); live_objects--; }
            gc_set_cycle_detection_enabled(false);
            ballast[nballast] = gc_alloc(1200000, GC_TYPE_STRING);
            gc_set_cycle_detection_enabled(true);
            if (ballast[nballast]) { nballast++; live_objects++; }
            break;
        case OP_COLLECT: gc_collect_cycles(); break;
        case OP_GCSTR: { char *s = gc_alloc_string((size_t)(o->x % 100)); if (s) { s[0] = 0; gc_release(s); } break; }
        case OP_LI_NEW: { int k = o->arr & 1; if (LI[k].l) break; LI[k].l = o->x & 1 ? list_int_new() : list_int_with_capacity((int)(o->y % 20)); LI[k].n = 0;
            for (int q = 0; q < (int)(o->y % 4); q++) { int64_t v = o->x * 13 + q; list_int_push(LI[k].l, v); LI[k].v[LI[k].n++] = v; } break; }
        case OP_LI_PUSH: { int k = o->arr & 1; if (!LI[k].l) break; for (int rpt = 0; rpt < 1 + (int)(o->y % 12) && LI[k].n < LMAX; rpt++) { int64_t v = (int64_t)o->x * 977 - rpt; list_int_push(LI[k].l, v); LI[k].v[LI[k].n++] = v; } break; }
        case OP_LI_POP: { int k = o->arr & 1; if (!LI[k].l || !LI[k].n) break; int64_t g = list_int_pop(LI[k].l); if (g != LI[k].v[LI[k].n - 1]) viol("list-pop-wrong-value", "op %d: list_int_pop", i); LI[k].n--; break; }
        case OP_LI_INSERT: { int k = o->arr & 1; if (!LI[k].l || LI[k].n >= LMAX) break; int idx = (int)((unsigned long)o->x % (unsigned)(LI[k].n + 1)); int64_t v = o->y * 31 + 5; list_int_insert(LI[k].l, idx, v);
            memmove(&LI[k].v[idx + 1], &LI[k].v[idx], sizeof(int64_t) * (size_t)(LI[k].n - idx)); LI[k].v[idx] = v; LI[k].n++; break; }
        case OP_LI_REMOVE: { int k = o->arr & 1; if (!LI[k].l || !LI[k].n) break; int idx = (int)((unsigned long)o->x % (unsigned)LI[k].n); int64_t g = list_int_remove(LI[k].l, idx);
            if (g != LI[k].v[idx]) viol("list-remove-wrong-value", "op %d: list_int_remove(%d)", i, idx); memmove(&LI[k].v[idx], &LI[k].v[idx + 1], sizeof(int64_t) * (size_t)(LI[k].n - idx - 1)); LI[k].n--; break; }
        case OP_LI_SET: { int k = o->arr & 1; if (!LI[k].l || !LI[k].n) break; int idx = (int)((unsigned long)o->x % (unsigned)LI[k].n); list_int_set(LI[k].l, idx, o->y); LI[k].v[idx] = o->y; break; }
        case OP_LI_CLEAR: { int k = o->arr & 1; if (!LI[k].l) break; list_int_clear(LI[k].l); LI[k].n = 0; break; }
        case OP_LI_FREE: { int k = o->arr & 1; if (!LI[k].l) break; list_int_free(LI[k].l); LI[k].l = NULL; LI[k].n = 0; break; }
        case OP_LS_NEW: { int k = o->arr & 1; if (LS[k].l) break; LS[k].l = o->x & 1 ? list_string_new() : list_string_with_capacity((int)(o->y % 20)); LS[k].n = 0;
            for (int q = 0; q < (int)(o->y % 4); q++) { const char *v = STRS[(unsigned long)(o->x + q) % 6]; list_string_push(LS[k].l, v); LS[k].v[LS[k].n++] = v; } break; }
        case OP_LS_PUSH: { int k = o->arr & 1; if (!LS[k].l) break; for (int rpt = 0; rpt < 1 + (int)(o->y % 12) && LS[k].n < LMAX; rpt++) { const char *v = STRS[(unsigned long)(o->x + rpt) % 6]; list_string_push(LS[k].l, v); LS[k].v[LS[k].n++] = v; } break; }
        case OP_LS_POP: { int k = o->arr & 1; if (!LS[k].l || !LS[k].n) break; char *g = list_string_pop(LS[k].l); if (!g || strcmp(g, LS[k].v[LS[k].n - 1])) viol("list-pop-wrong-value", "op %d: list_string_pop", i); free(g); LS[k].n--; break; }
        case OP_LS_INSERT: { int k = o->arr & 1; if (!LS[k].l || LS[k].n >= LMAX) break; int idx = (int)((unsigned long)o->x % (unsigned)(LS[k].n + 1)); const char *v = STRS[(unsigned long)o->y % 6]; list_string_insert(LS[k].l, idx, v);
            memmove(&LS[k].v[idx + 1], &LS[k].v[idx], sizeof(char *) * (size_t)(LS[k].n - idx)); LS[k].v[idx] = v; LS[k].n++; break; }
        case OP_LS_REMOVE: { int k = o->arr & 1; if (!LS[k].l || !LS[k].n) break; int idx = (int)((unsigned long)o->x % (unsigned)LS[k].n); char *g = list_string_remove(LS[k].l, idx);
            if (!g || strcmp(g, LS[k].v[idx])) viol("list-remove-wrong-value", "op %d: list_string_remove(%d)", i, idx); free(g); memmove(&LS[k].v[idx], &LS[k].v[idx + 1], sizeof(char *) * (size_t)(LS[k].n - idx - 1)); LS[k].n--; break; }
        case OP_LS_SET: { int k = o->arr & 1; if (!LS[k].l || !LS[k].n) break; int idx = (int)((unsigned long)o->x % (unsigned)LS[k].n); const char *v = STRS[(unsigned long)o->y % 6]; list_string_set(LS[k].l, idx, v); LS[k].v[idx] = v; break; }
        case OP_LS_CLEAR: { int k = o->arr & 1; if (!LS[k].l) break; list_string_clear(LS[k].l); LS[k].n = 0; break; }
        case OP_LS_FREE: { int k = o->arr & 1; if (!LS[k].l) break; list_string_free(LS[k].l); LS[k].l = NULL; LS[k].n = 0; break; }
        case OP_NS_NEW: { int k = o->arr % 3; if (NS[k].s) break; size_t n = (size_t)(o->x % 300);
            if (o->y % 3 == 0) for (size_t j = 0; j < n; j++) NS[k].v[j] = (uint8_t)((o->y + (long)j * 7) % 256);
            else {   /* well-formed multi-byte sequences, cut at an arbitrary byte (the tail may be a truncated character) */
                size_t j = 0; uint64_t z = (uint64_t)o->y * 2654435761u + 1;
                while (j < n) { z ^= z << 13; z ^= z >> 7; z ^= z << 17; int l = 1 + (int)(z % 4); static const uint8_t lead[] = { 0x41, 0xC3, 0xE2, 0xF0 };
                    if ((o->y & 4) && j + (size_t)l > n) l = 1;   /* half of the strings end on a character boundary, i.e. are valid */
                    NS[k].v[j++] = l == 1 ? (uint8_t)(0x20 + z % 0x5f) : lead[l - 1]; for (int q = 1; q < l && j < n; q++) NS[k].v[j++] = (uint8_t)(0x80 + (z >> (8 * q)) % 0x40); }
            }
            NS[k].n = n;
            NS[k].s = nl_string_new_binary(NS[k].v, n); break; }
        case OP_NS_CONCAT: { int a1 = o->arr % 3, b1 = (int)(o->x % 3), d1 = (int)(o->y % 3); if (NS[d1].s && d1 != a1 && d1 != b1) { nl_string_free(NS[d1].s); NS[d1].s = NULL; NS[d1].n = 0; }
            if (!NS[a1].s || !NS[b1].s || NS[d1].s || NS[a1].n + NS[b1].n > 4000) break;
            NS[d1].s = nl_string_concat(NS[a1].s, NS[b1].s); memcpy(NS[d1].v, NS[a1].v, NS[a1].n); memcpy(NS[d1].v + NS[a1].n, NS[b1].v, NS[b1].n); NS[d1].n = NS[a1].n + NS[b1].n; u8slot = d1; break; }
        case OP_NS_SUBSTR: { int a1 = o->arr % 3, d1 = (int)(o->y % 3); if (NS[d1].s && d1 != a1) { nl_string_free(NS[d1].s); NS[d1].s = NULL; NS[d1].n = 0; }
            if (!NS[a1].s || NS[d1].s || !NS[a1].n) break; size_t st = (size_t)o->x % NS[a1].n, ln = (size_t)(o->y / 3) % (NS[a1].n - st + 1);
            NS[d1].s = nl_string_substring(NS[a1].s, st, ln); memcpy(NS[d1].v, NS[a1].v + st, ln); NS[d1].n = ln;
            /* what the new string believes about itself is checked at once, not only if a later op happens to pick it */
            u8slot = d1; break; }
        case OP_NS_CLONE: { int a1 = o->arr % 3, d1 = (int)(o->y % 3); if (NS[d1].s && d1 != a1) { nl_string_free(NS[d1].s); NS[d1].s = NULL; NS[d1].n = 0; }
            if (!NS[a1].s || NS[d1].s) break; NS[d1].s = nl_string_clone(NS[a1].s); memcpy(NS[d1].v, NS[a1].v, NS[a1].n); NS[d1].n = NS[a1].n; u8slot = d1; break; }
        case OP_NS_RESERVE: { int a1 = o->arr % 3; if (!NS[a1].s) break; if (o->x & 1) nl_string_reserve(NS[a1].s, (size_t)(o->y % 5000)); else nl_string_shrink_to_fit(NS[a1].s); break; }
        case OP_NS_UTF8: u8slot = o->arr % 3; break;
        case OP_GC_RESTART: {
            /* shut the collector down (it frees everything that is still alive) and start a new session in the same process */
            { int alive_w = 0; for (int k = 0; k < 3; k++) if (WR[k].w) alive_w++; int before = fin_calls;
            gc_shutdown();
            if (fin_calls != before + alive_w) viol("finalizer-count", "op %d: gc_shutdown with %d wrapped pointers alive ran %d finalizer(s)", i, alive_w, fin_calls - before);
            for (int k = 0; k < 3; k++) WR[k].w = NULL; }
            for (int k = 0; k < MAXA; k++) A[k].live = false;
            for (int k = 0; k < 3; k++) held[k] = NULL;
            nballast = 0; live_objects = 0; ncache = 0;
            gc_init(); if (P->thresh) gc_set_threshold((size_t)P->thresh);
            break; }
        case OP_GCSTR_HOLD: { int k = o->arr % 3; if (held[k]) { gc_release(held[k]); held[k] = NULL; live_objects--; break; } size_t n = (o->x % 4 == 0) ? 0 : (size_t)(o->x % 90);
            held[k] = gc_alloc_string(n); if (!held[k]) break; for (size_t j = 0; j < n; j++) held[k][j] = (char)('a' + (j + (size_t)o->y) % 26); held[k][n] = 0; heldlen[k] = n; live_objects++; break; }
        case OP_GCSTR_DROP: { int k = o->arr % 3; if (!held[k]) break; gc_release(held[k]); held[k] = NULL; live_objects--; break; }
        /* aliasing: the value handed to the container lives inside the container ((array_push a (at a i)), (set a i (at a j))) */
        case OP_PUSH_SELF: { int t = pick_live(o->arr); if (t < 0) break; m = &A[t]; if (!m->len) break;
            int reps = 1 + (int)(o->y % 12);
            for (int r = 0; r < reps && m->len < MAXLEN; r++) {
                int idx = (int)((unsigned long)(o->x + r) % (unsigned)m->len);
                MVal v = m->v[idx];
                switch (m->kind) {
                case K_STRUCT: m->d = dyn_array_push_struct(m->d, dyn_array_get_struct(m->d, idx), (size_t)m->ssize); break;
                case K_STRING: m->d = dyn_array_push_string(m->d, dyn_array_get_string(m->d, idx)); break;
                case K_ARRAY: m->d = dyn_array_push_array(m->d, dyn_array_get_array(m->d, idx)); break;
                case K_INT: m->d = dyn_array_push_int(m->d, dyn_array_get_int(m->d, idx)); break;
                default: do_push(m, &v); break;
                }
                m->v[m->len++] = v;
            }
            break; }
        case OP_SET_SELF: { int t = pick_live(o->arr); if (t < 0) break; m = &A[t]; if (m->len < 2) break;
            int di = (int)((unsigned long)o->x % (unsigned)m->len), si = (int)((unsigned long)o->y % (unsigned)m->len); if (si == di) si = (di + 1) % m->len;
            switch (m->kind) {
            case K_STRUCT: dyn_array_set_struct(m->d, di, dyn_array_get_struct(m->d, si), (size_t)m->ssize); break;
            case K_STRING: dyn_array_set_string(m->d, di, dyn_array_get_string(m->d, si)); break;
            case K_ARRAY: dyn_array_set_array(m->d, di, dyn_array_get_array(m->d, si)); break;
            case K_INT: dyn_array_set_int(m->d, di, dyn_array_get_int(m->d, si)); break;
            default: goto skip2;
            }
            m->v[di] = m->v[si];
            skip2: break; }
        case OP_LS_SET_SELF: { int k = o->arr & 1; if (!LS[k].l || !LS[k].n) break;
            int di = (int)((unsigned long)o->x % (unsigned)LS[k].n), si = (o->y & 1) ? di : (int)((unsigned long)o->y % (unsigned)LS[k].n);
            list_string_set(LS[k].l, di, list_string_get(LS[k].l, si)); LS[k].v[di] = LS[k].v[si]; break; }
        /* more owners than a 16-bit counter holds, released again: the object must be exactly as alive as before */
        case OP_RETAIN_MANY: { int t = pick_live(o->arr); if (t < 0) break; m = &A[t];
            long nown = 65500 + o->x % 5000;
            for (long q = 0; q < nown; q++) gc_retain(m->d);
            for (long q = 0; q < nown; q++) gc_release(m->d);
            if (!gc_is_managed(m->d)) { viol("object-died-with-owners", "op %d: %ld retains followed by %ld releases destroyed an array that still has %d owner(s)", i, nown, nown, m->rc); break; }
            for (int e = 0; e < m->len; e++) if (!valeq(m->kind, m->ssize, &m->v[e], m->d, e)) { viol("get-wrong-value", "op %d: element %d differs from the model after retain/release of %ld owners", i, e, nown); break; }
            break; }
        case OP_NS_CSTR: { int a1 = o->arr % 3; if (!NS[a1].s) break;
            const char *c = nl_string_to_cstr(NS[a1].s);
            if (!c) { viol("cstr-null", "op %d: nl_string_to_cstr returned NULL", i); break; }
            if (memcmp(c, NS[a1].v, NS[a1].n) != 0 || c[NS[a1].n] != 0) { viol("cstr-wrong-bytes", "op %d: nl_string_to_cstr of a %zu-byte string is not those bytes followed by NUL", i, NS[a1].n); break; }
            char ch = 0; bool in = nl_string_byte_at_safe(NS[a1].s, (size_t)o->x % (NS[a1].n + 2), &ch); size_t ix = (size_t)o->x % (NS[a1].n + 2);
            if (in != (ix < NS[a1].n) || (in && (uint8_t)ch != NS[a1].v[ix])) { viol("byte-at-safe-wrong", "op %d: byte_at_safe(%zu) on a %zu-byte string", i, ix, NS[a1].n); break; }
            size_t bl = 0; const void *bp = nl_string_to_binary(NS[a1].s, &bl); if (bl != NS[a1].n || (bl && memcmp(bp, NS[a1].v, bl))) { viol("to-binary-wrong", "op %d: to_binary length %zu, model %zu", i, bl, NS[a1].n); break; }
            for (int k2 = 0; k2 < 3; k2++) if (NS[k2].s) { bool e = nl_string_equals(NS[a1].s, NS[k2].s), me = NS[a1].n == NS[k2].n && memcmp(NS[a1].v, NS[k2].v, NS[a1].n) == 0; if (e != me) { viol("equals-wrong", "op %d: nl_string_equals says %d, model %d", i, e, me); break; } }
            break; }
        case OP_NS_FROM_UTF8: { int k = o->arr % 3; if (NS[k].s) break; size_t n = (size_t)(o->x % 40);
            uint64_t z = (uint64_t)o->y * 2654435761u + 7; size_t j = 0;
            while (j < n) { z ^= z << 13; z ^= z >> 7; z ^= z << 17; int l = 1 + (int)(z % 4); static const uint8_t lead[] = { 0x41, 0xC3, 0xE2, 0xF0 };
                if ((o->y & 2) && j + (size_t)l > n) l = 1;
                NS[k].v[j++] = l == 1 ? (uint8_t)(0x20 + z % 0x5f) : lead[l - 1]; for (int q = 1; q < l && j < n; q++) NS[k].v[j++] = (uint8_t)(((o->y & 1) && q == 1 ? 0x40 : 0x80) + (z >> (8 * q)) % 0x40); }
            long cnt = 0; bool want = utf8_ref(NS[k].v, n, &cnt);
            nl_string_t *r = nl_string_from_utf8((const char *)NS[k].v, n);
            if ((r != NULL) != want) { viol("from-utf8-accepts-differs", "op %d: nl_string_from_utf8 %s a %zu-byte input that the reference validator %s", i, r ? "accepts" : "refuses", n, want ? "accepts" : "refuses"); if (r) nl_string_free(r); break; }
            if (r) { NS[k].s = r; NS[k].n = n; u8slot = k; }
            break; }
        case OP_NS_WITHCAP: { int k = o->arr % 3; if (NS[k].s) break;
            NS[k].s = nl_string_with_capacity((size_t)(o->x % 40)); if (!NS[k].s) break; NS[k].n = 0;
            if (o->y & 1) nl_string_ensure_null_terminated(NS[k].s);
            const char *c = nl_string_to_cstr(NS[k].s); if (!c || c[0] != 0) viol("cstr-wrong-bytes", "op %d: empty string with capacity %ld is not \"\" as a C string", i, o->x % 40);
            break; }
        case OP_WRAP: { int k = o->arr % 3; if (WR[k].w) goto wrap_drop;
            if (o->y & 1) { void *ext = malloc(16 + (size_t)(o->x % 64)); memset(ext, 0x5a, 16); WR[k].w = gc_wrap_external(ext, wr_finalizer); WR[k].ext = ext; WR[k].opaque = false; }
            else { WR[k].w = gc_alloc_opaque(8 + (size_t)(o->x % 64), op_finalizer); WR[k].ext = WR[k].w; WR[k].opaque = true; }
            if (!WR[k].w) break;
            live_objects++; WR[k].fin_at_wrap = fin_calls;
            if (gc_unwrap(WR[k].w) != WR[k].ext) viol("unwrap-wrong-pointer", "op %d: gc_unwrap does not return the wrapped pointer", i);
            if (gc_wrap_external(WR[k].w, wr_finalizer) != WR[k].w) viol("double-wrap", "op %d: wrapping an already managed pointer must return it unchanged", i);
            if (o->x & 1) { gc_retain(WR[k].w); gc_release(WR[k].w); }
            break; }
        case OP_WRAP_DROP: { int k; wrap_drop: k = o->arr % 3; if (!WR[k].w) break;
            int before = fin_calls; void *ext = WR[k].ext;
            gc_release(WR[k].w); WR[k].w = NULL; live_objects--;
            if (fin_calls != before + 1 || fin_last != ext) viol("finalizer-count", "op %d: releasing the last owner of a wrapped pointer ran its finalizer %d time(s)", i, fin_calls - before);
            break; }
        /* ---- the emitted prelude (text nanoc puts into every native program) ---- */
        case OP_EM_FSB: { int k = o->arr & 1;
            if (!FSB[k].live) { static const size_t caps[] = { 0, 1, 2, 3, 16, 128, 256 }; FSB[k].sb = nl_fmt_sb_new(caps[(unsigned long)o->x % 7]); FSB[k].n = 0; FSB[k].live = FSB[k].sb.buf != NULL; if (FSB[k].live) fsb_check(k, i); break; }
            nl_fmt_sb_t *b = &FSB[k].sb; size_t room = b->cap - b->len;   /* bytes left including the terminator's */
            switch (o->y % 5) {
            case 0: case 1: case 2: {   /* append a C string whose length lands on or around the end of the buffer */
                static const long near[] = { -2, -1, 0, 1, 2 }; long L = (o->y / 5) % 3 ? (long)room + near[(unsigned long)o->x % 5] : o->x % 300;
                if (L < 0) L = 0; if (FSB[k].n + (size_t)L + 1 > sizeof FSB[k].v) L = 0;
                char *t = malloc((size_t)L + 1); for (long q = 0; q < L; q++) t[q] = (char)('A' + (q + o->x) % 26); t[L] = 0;
                nl_fmt_sb_append_cstr(b, t); memcpy(FSB[k].v + FSB[k].n, t, (size_t)L); FSB[k].n += (size_t)L; free(t); break; }
            case 3: if (FSB[k].n + 2 < sizeof FSB[k].v) { char c = (char)('a' + o->x % 26); nl_fmt_sb_append_char(b, c); FSB[k].v[FSB[k].n++] = c; } break;
            default: fsb_check(k, i); free(b->buf); memset(b, 0, sizeof *b); FSB[k].live = false; break; }
            if (FSB[k].live && !vsig[0]) fsb_check(k, i);
            break; }
        case OP_EM_TOSTR: { int t = pick_live(o->arr); if (t < 0) break; m = &A[t]; if (m->kind == K_ARRAY) break;
            /* the emitted formatter against a model rendering; what it allocates per element stays owned by nobody (by design of
             * the emitted code) and is accounted for in the model's live-object count */
            char want[16384]; size_t w = 0; want[w++] = '[';
            for (int e = 0; e < m->len && w < sizeof want - 200; e++) {
                if (e) { want[w++] = ','; want[w++] = ' '; }
                switch (m->kind) {
                case K_INT: w += (size_t)sprintf(want + w, "%lld", (long long)m->v[e].i); break;
                case K_U8: w += (size_t)sprintf(want + w, "%lld", (long long)(uint8_t)m->v[e].i); break;
                case K_FLOAT: w += (size_t)sprintf(want + w, "%g", m->v[e].f); break;
                case K_BOOL: w += (size_t)sprintf(want + w, "%s", m->v[e].i ? "true" : "false"); break;
                case K_STRING: w += (size_t)sprintf(want + w, "\"%s\"", m->v[e].s); break;
                default: w += (size_t)sprintf(want + w, "<struct>"); break; }
            }
            want[w++] = ']'; want[w] = 0;
            size_t before = gc_get_stats().num_objects;
            const char *got = nl_to_string_array(m->d);
            size_t after = gc_get_stats().num_objects;
            long expect_new = (m->kind == K_INT || m->kind == K_U8 || m->kind == K_FLOAT) ? m->len : 0;
            if (!got || strcmp(got, want) != 0) { viol("em-to-string-array-differs", "op %d: emitted nl_to_string_array of a %d-element %s array does not render the model list", i, m->len, kname[m->kind]); break; }
            if ((long)(after - before) != expect_new) { viol("em-to-string-array-objects", "op %d: emitted nl_to_string_array created %ld collector objects, expected %ld", i, (long)(after - before), expect_new); break; }
            live_objects += (int)expect_new;
            if (strcmp(got, "[]") != 0 || m->len == 0) free((void *)got);
            break; }
        case OP_EM_STR: {
            /* emitted string builtins: concat / substring / contains / char_at / from_char / int_to_string against libc on plain buffers */
            char a1[600], b1[300]; size_t la = (size_t)(o->x % 290), lb = (size_t)(o->y % 290);
            for (size_t q = 0; q < la; q++) a1[q] = (char)('a' + (q * 7 + (size_t)o->x) % 26); a1[la] = 0;
            for (size_t q = 0; q < lb; q++) b1[q] = (char)('A' + (q * 3 + (size_t)o->y) % 26); b1[lb] = 0;
            size_t before = gc_get_stats().num_objects;
            const char *c = nl_str_concat(a1, b1);
            if (strlen(c) != la + lb || memcmp(c, a1, la) != 0 || memcmp(c + la, b1, lb) != 0) { viol("em-str-concat-differs", "op %d: emitted nl_str_concat of %zu and %zu bytes", i, la, lb); break; }
            int64_t st = (int64_t)(o->y % (long)(la + 3)) - 1, ln = (int64_t)(o->x % (long)(la + 3)) - 1;
            const char *sub = nl_str_substring(a1, st, ln);
            { size_t ws = 0, wl = 0; if (st >= 0 && (size_t)st < la && ln >= 0) { ws = (size_t)st; wl = (size_t)ln; if (ws + wl > la) wl = la - ws; }
              if (strlen(sub) != wl || memcmp(sub, a1 + ws, wl) != 0) { viol("em-str-substring-differs", "op %d: emitted nl_str_substring(%zu bytes, %lld, %lld) is not the %zu bytes at %zu", i, la, (long long)st, (long long)ln, wl, ws); break; } }
            if (la) { int64_t ix = o->y % (long)la; if (char_at(a1, ix) != (unsigned char)a1[ix]) { viol("em-char-at-differs", "op %d: emitted char_at(%lld)", i, (long long)ix); break; } }
            char *fc = string_from_char('a' + o->x % 26); if (strlen(fc) != 1 || fc[0] != (char)('a' + o->x % 26)) { viol("em-string-from-char-differs", "op %d", i); break; }
            int64_t iv = (o->x % 3 == 0) ? INT64_MIN : (o->x % 3 == 1) ? INT64_MAX - o->y : -(int64_t)o->x * o->y; char wb[40]; snprintf(wb, sizeof wb, "%lld", (long long)iv);
            char *is = int_to_string(iv); if (strcmp(is, wb) != 0) { viol("em-int-to-string-differs", "op %d: emitted int_to_string(%lld) gives %s", i, (long long)iv, is); break; }
            if (nl_str_contains(c, b1) != true || nl_str_equals(c, c) != true) { viol("em-str-contains-differs", "op %d", i); break; }
            if (string_to_int(wb) != iv && iv != INT64_MIN) { viol("em-string-to-int-differs", "op %d: emitted string_to_int(%s)", i, wb); break; }
            /* the harness was the only owner of what these calls returned */
            const void *owned[4] = { c, sub, fc, is }; for (int q = 0; q < 4; q++) if (gc_is_managed((void *)owned[q])) gc_release((void *)owned[q]);
            if (gc_get_stats().num_objects != before) viol("em-str-objects", "op %d: emitted string builtins left %ld collector objects behind after their only owner released them", i, (long)(gc_get_stats().num_objects - before));
            break; }
        case OP_EM_SLICE: { int t = pick_live(o->arr); if (t < 0) break; m = &A[t];
            int64_t st = (int64_t)(o->x % (long)(m->len + 4)) - 2, ln = (int64_t)(o->y % (long)(m->len + 4)) - 2;
            DynArray *sl = nl_array_slice(m->d, st, ln); if (!sl) break;
            int64_t ws = st < 0 ? 0 : st, wl = ln < 0 ? 0 : ln; if (ws > m->len) ws = m->len; if (ws + wl > m->len) wl = m->len - ws;
            if (dyn_array_length(sl) != wl) viol("em-array-slice-length", "op %d: emitted nl_array_slice(%d elements, %lld, %lld) has %lld elements, model %lld", i, m->len, (long long)st, (long long)ln, (long long)dyn_array_length(sl), (long long)wl);
            else if (sl->length > sl->capacity) viol("length-exceeds-capacity", "op %d: emitted nl_array_slice result length %lld > capacity %lld", i, (long long)sl->length, (long long)sl->capacity);
            else for (int64_t e = 0; e < wl; e++) if (!valeq(m->kind, m->ssize, &m->v[ws + e], sl, (int)e)) { viol("em-array-slice-contents", "op %d: emitted nl_array_slice element %lld differs from the model", i, (long long)e); break; }
            gc_release(sl);
            break; }
        case OP_NS_FREE: { int a1 = o->arr % 3; if (!NS[a1].s) break; nl_string_free(NS[a1].s); NS[a1].s = NULL; NS[a1].n = 0; break; }
        }
        if (rt_calls != calls_before || n_alloc != alloc_before) op_fired[o->op]++;
        if (!vsig[0] && u8slot >= 0) utf8_oracle(u8slot, o, i);
        if (!vsig[0] && o->op >= OP_LI_NEW) lists_check(opname[o->op], i);
        if (!vsig[0]) check_all(opname[o->op], i);
    }
    seam_on = 0;
}

/* ---------------- plan gen / text ---------------- */
static void plan_gen(Plan *P, uint64_t seed, bool quick) {
    memset(P, 0, sizeof *P); P->seed = seed; rs = seed * 0x2545F4914F6CDD1Dull + 1;
    P->junk = rn(2) ? 1 + (int)rn(255) : 0; P->movere = (int)rn(2); P->stale = (int)rn(2); P->thresh = rn(2) ? 1024 : 0; P->image = (int)rn(2);
    int n = quick ? 20 + (int)rn(100) : 40 + (int)rn(200);
    /* swarm: a random subset of op kinds is enabled per run */
    bool en[NOPS]; for (int i = 0; i < NOPS; i++) en[i] = rn(4) != 0; en[OP_NEW] = en[OP_PUSH] = true;
    if (!P->thresh) en[OP_BALLAST] = false;
    en[OP_LI_NEW] = en[OP_LS_NEW] = en[OP_NS_NEW] = en[OP_WRAP] = true;   /* producers: without them the consumers of their family never pass their preconditions */
    int kinds_mask = 1 + (int)rn((1u << NKINDS) - 1);
    for (int i = 0; i < n; i++) {
        Op *o = &P->ops[P->nops]; int op;
        do { uint32_t r = rn(150); if (r >= 100) { op = OP_LI_NEW + (int)rn(NOPS - OP_LI_NEW); if (rn(3) == 0) op = rn(3) == 0 ? OP_LI_NEW : rn(2) ? OP_LS_NEW : OP_NS_NEW; continue; } op = r < 14 ? OP_NEW : r < 18 ? OP_NEWCAP : r < 42 ? OP_PUSH : r < 50 ? OP_POP : r < 56 ? OP_GET : r < 63 ? OP_SET : r < 69 ? OP_INSERT : r < 76 ? OP_REMOVE : r < 78 ? OP_CLEAR : r < 82 ? OP_RESERVE : r < 87 ? OP_CLONE : r < 89 ? OP_RETAIN : r < 93 ? OP_RELEASE : r < 96 ? OP_BALLAST : r < 98 ? OP_COLLECT : OP_GCSTR; } while (!en[op]);
        o->op = op; o->arr = (int)rn(64); do { o->kind = (int)rn(NKINDS); } while (!((kinds_mask >> o->kind) & 1));
        o->x = (long)rn(100000); o->y = (long)rn(100000);
        P->nops++;
    }
}
static void plan_print(Plan *P, FILE *f) {
    fprintf(f, "family rt\nseed %llu\nalloc junk=%d move_realloc=%d stale_recycle=%d gc_threshold=%d stale_image=%d\n", (unsigned long long)P->seed, P->junk, P->movere, P->stale, P->thresh, P->image);
    for (int i = 0; i < P->nops; i++) fprintf(f, "op %s arr=%d kind=%s x=%ld y=%ld\n", opname[P->ops[i].op], P->ops[i].arr, kname[P->ops[i].kind], P->ops[i].x, P->ops[i].y);
}
static bool plan_parse(Plan *P, const char *path) {
    FILE *f = fopen(path, "r"); if (!f) return false;
    memset(P, 0, sizeof *P); char line[256];
    while (fgets(line, sizeof line, f)) {
        unsigned long long s; char on[32], kn[16]; int a; long x, y;
        if (sscanf(line, "seed %llu", &s) == 1) P->seed = s;
        else if (sscanf(line, "alloc junk=%d move_realloc=%d stale_recycle=%d gc_threshold=%d stale_image=%d", &P->junk, &P->movere, &P->stale, &P->thresh, &P->image) >= 4) {}
        else if (sscanf(line, "op %31s arr=%d kind=%15s x=%ld y=%ld", on, &a, kn, &x, &y) == 5 && P->nops < 256) {
            Op *o = &P->ops[P->nops]; o->op = -1;
            for (int i = 0; i < NOPS; i++) if (!strcmp(opname[i], on)) o->op = i;
            for (int i = 0; i < NKINDS; i++) if (!strcmp(kname[i], kn)) o->kind = i;
            if (o->op < 0) continue;
            o->arr = a; o->x = x; o->y = y; P->nops++;
        }
    }
    fclose(f); return true;
}
static void jstr(FILE *f, const char *s) { fputc('"', f); for (; *s; s++) { if (*s == '"' || *s == '\\') fputc('\\', f); if (*s == '\n') fputs("\\n", f); else if ((unsigned char)*s >= 0x20) fputc(*s, f); } fputc('"', f); }

int main(int argc, char **argv) {
    if (argc < 3) return 2;
    bool replay = !strcmp(argv[1], "replay"); uint64_t s0 = 1, s1 = 2; const char *planfile = NULL; bool quick = true;
    for (int i = 3; i < argc; i++) {
        if (!strcmp(argv[i], "--seeds") && i + 1 < argc) sscanf(argv[++i], "%llu:%llu", (unsigned long long *)&s0, (unsigned long long *)&s1);
        else if (!strcmp(argv[i], "--plan") && i + 1 < argc) planfile = argv[++i];
        else if (!strcmp(argv[i], "--tier") && i + 1 < argc) quick = strcmp(argv[++i], "quick") == 0;
        else if (!strcmp(argv[i], "--sub") && i + 1 < argc) i++;
    }
    if (replay) { s0 = 0; s1 = 1; }
    const char *tmpd = getenv("NANOSIM_TMP") ? getenv("NANOSIM_TMP") : "/verif/build/tmp";
    for (uint64_t seed = s0; seed < s1; seed++) {
        static Plan P;
        if (planfile) { if (!plan_parse(&P, planfile)) return 2; } else plan_gen(&P, seed, quick);
        char *pt = NULL; size_t pl = 0; FILE *pm = open_memstream(&pt, &pl); plan_print(&P, pm); fclose(pm);
        int pf[2]; if (pipe(pf)) return 2;
        fflush(stdout);
        pid_t pid = fork();
        if (pid == 0) {
            close(pf[0]);
            /* sanitizer reports (ASan and UBSan) go to stderr: collect them in a per-run file */
            if (!getenv("RT_SHOWERR")) { char lp[300]; snprintf(lp, sizeof lp, "%s/rt_asan.%d", tmpd, (int)getpid()); int dn = open(lp, O_WRONLY | O_CREAT | O_TRUNC, 0644); if (dn >= 0) dup2(dn, 2); }
            run_plan(&P);
            FILE *o = fdopen(pf[1], "w");
            fprintf(o, "{\"family\":\"rt\",\"seed\":%llu,\"verdict\":\"%s\",\"property\":\"%s\",\"sig\":", (unsigned long long)P.seed, vsig[0] ? "violation" : "ok", vsig[0] ? "C20" : "");
            jstr(o, vsig); fprintf(o, ",\"detail\":"); jstr(o, vmsg); fprintf(o, ",\"plan\":"); jstr(o, pt);
            GCStats st = gc_get_stats();
            fprintf(o, ",\"class\":\"%016llx\",\"nontrivial\":%d,\"hash\":\"%016llx\",\"simtime_us\":0,\"stats\":{},\"probes\":{\"ops\":%d,\"model_checks\":%llu,\"allocations\":%llu,\"stale_headers_recycled\":%llu,\"collections\":%zu",
                    (unsigned long long)(P.seed * 1099511628211ull ^ (uint64_t)P.nops), n_checks > 0, (unsigned long long)n_checks * 31 + st.num_collections, P.nops,
                    (unsigned long long)n_checks, (unsigned long long)n_alloc, (unsigned long long)n_recycled, st.num_collections);
            for (int k = 0; k < NOPS; k++) if (op_fired[k]) fprintf(o, ",\"op_%s\":%d", opname[k], op_fired[k]);
            fprintf(o, "}}\n");
            fflush(o); _exit(0);
        }
        close(pf[1]);
        char buf[1 << 16]; size_t got = 0; ssize_t r;
        char *acc = NULL; size_t al = 0; FILE *am = open_memstream(&acc, &al);
        while ((r = read(pf[0], buf, sizeof buf)) > 0) { fwrite(buf, 1, (size_t)r, am); got += (size_t)r; }
        fclose(am); close(pf[0]);
        int st = 0; waitpid(pid, &st, 0);
        { char lp0[320]; snprintf(lp0, sizeof lp0, "%s/rt_asan.%d", tmpd, (int)pid); if (WIFEXITED(st) && WEXITSTATUS(st) == 0) unlink(lp0); }
        if (WIFEXITED(st) && WEXITSTATUS(st) == 0 && got) fputs(acc, stdout);
        else {
            char lp[320]; snprintf(lp, sizeof lp, "%s/rt_asan.%d", tmpd, (int)pid);
            char rep[6000] = ""; FILE *rf = fopen(lp, "r"); if (rf) { size_t n = fread(rep, 1, sizeof rep - 1, rf); rep[n] = 0; fclose(rf); }
            char kind[64] = "", site[128] = "";
            char *e = strstr(rep, "Sanitizer: "); if (e) { e += 11; size_t l = strcspn(e, " \n"); if (l > 63) l = 63; memcpy(kind, e, l); kind[l] = 0; }
            if (!e && strstr(rep, "runtime error:")) { char *q = strstr(rep, "runtime error:") + 15; size_t l = strcspn(q, "\n"); if (l > 63) l = 63; memcpy(kind, q, l); kind[l] = 0; for (char *c = kind; *c; c++) if (*c == ' ' || *c == '"') *c = '_'; }
            for (char *p = rep; (p = strstr(p, " in ")); ) { p += 4; const char *hit = strstr(p, "/src/runtime/"); char *eol = strchr(p, '\n'); if (!eol) break; if (!(hit && hit < eol)) { hit = strstr(p, "emitted_prelude.inc"); }
                if (hit && hit < eol) { char fn[64] = "", file[128] = ""; sscanf(p, "%63s %127s", fn, file); char *b = strrchr(file, '/'); b = b ? b + 1 : file; char *c = strchr(b, ':'); if (c) *c = 0; snprintf(site, sizeof site, "%s@%s", fn, b); break; } }
            unlink(lp);
            printf("{\"family\":\"rt\",\"seed\":%llu,\"verdict\":\"crash\",\"role\":\"runtime\",\"wstatus\":%d,\"kind\":\"%s\",\"site\":\"%s\",\"asan\":", (unsigned long long)P.seed, st, kind, site);
            jstr(stdout, rep); printf(",\"plan\":"); jstr(stdout, pt); printf("}\n");
        }
        fflush(stdout); free(acc); free(pt);
    }
    return 0;
}
