/* Family "daemon": real nano_vmd + real nano_vm --daemon clients (+ real
 * nano_cop for sessions with externs) under seeded schedules (C17), plus
 * misbehaving peers and killed clients (C18).  DESIGN.md section 4. */
#include "nanosim.h"
#include <stdlib.h>
#include <string.h>
#include <errno.h>
#include <signal.h>
#include <sys/wait.h>
#include "nanovm/vmd_protocol.h"

enum { BK_HDR_ONLY = 0, BK_TRUNC, BK_GARBAGE, BK_BADVER, BK_UNKTYPE, BK_OVERSIZE, BK_ZEROLEN, BK_NONMODULE,
       BK_BADCRC, BK_PINGJUNK, BK_STATUS, BK_SLOWREADER, BK_MIDOUTPUT, BK_TRAILING, BK_SLOWLORIS, BK_HOSTILE, BK_NKINDS };
static const char *bk_name[] = { "hdr_only", "trunc_payload", "garbage", "bad_version", "unknown_type", "oversize_len",
    "zero_len", "non_module", "bad_crc", "ping_junk", "status", "slow_reader", "disconnect_mid_output", "exec_plus_trailing_bytes", "slowloris", "hostile_module" };

typedef struct PClient { char prog[32]; int tok; uint64_t arrive; int kill_sys; int copkill; /* kill this session's co-process at its n-th system call */ } PClient;
typedef struct PBad { int kind; int arg; uint64_t arrive; char prog[32]; int tok; } PBad;
typedef struct DPlan {
    char sub[8];               /* c17 | c18 */
    int mode;                  /* 0 pre-started daemon, 1 lazy launch by the clients, 2 pre-started with 1 s idle timeout */
    int verbose;
    int cop_missing;           /* 1: nano_cop cannot be exec'ed in this run: sessions with externs take the documented in-process fallback */
    int race;                  /* 1: the daemon is the -fsanitize=thread image and sim/race.c watches it */
    int nclients; PClient c[64];
    int nbad; PBad b[64];
} DPlan;

/* client programs: corpus modules ("arith", token) or generated heap programs ("gen<pseed>", token ignored) */
extern void heap_gen_program(uint64_t pseed, Buf *src);
static bool is_gen(const char *prog) { return strncmp(prog, "gen", 3) == 0 && prog[3] >= '0' && prog[3] <= '9'; }
static void gen_key(const char *prog, char *key, size_t ksz, Buf *srcout) {
    Buf src = {0}; heap_gen_program(strtoull(prog + 3, NULL, 10), &src);
    snprintf(key, ksz, "g%016llx", (unsigned long long)fnv64((char *)src.d));
    if (srcout) *srcout = src; else buf_free(&src);
}
static bool client_module(const char *prog, int tok, const uint8_t **d, size_t *n, bool *needs_extern) {
    if (is_gen(prog)) { char key[40]; gen_key(prog, key, sizeof key, NULL); Prog *pg = prog_lookup(key); if (!pg || !pg->ok) return false; *d = pg->d; *n = pg->n; if (needs_extern) *needs_extern = false; return true; }
    Module *m = corpus_find(prog, tok); if (!m) return false; *d = m->d; *n = m->n; if (needs_extern) *needs_extern = m->needs_extern; return true;
}
static Ref *client_ref(const char *prog, int tok) {
    if (is_gen(prog)) { char key[40]; gen_key(prog, key, sizeof key, NULL); return ref_lookup_key(key); }
    return ref_lookup(prog, tok);
}

/* ---------------- plan generation / text ---------------- */
static const char *pick_prog(bool allow_big) {
    for (;;) {
        const char *p = corpus_prog((int)sim_rndn((uint32_t)corpus_nprogs()));
        if (!allow_big && strcmp(p, "bigout") == 0 && sim_rndn(3)) continue;
        /* deeprec (C14: 4 500-slot operand stack, audited at every instruction) would eat a daemon plan's whole step budget under 30-block preemption: one client in twenty at most */
        if ((strcmp(p, "deeprec") == 0 || strcmp(p, "bigimage") == 0) && sim_rndn(20)) continue;
        return p;
    }
}
static void gen_knobs(bool quick) {
    default_knobs();
    static const int pm[] = { 0, 0, 10000, 1000, 100, 30 };
    K.preempt_mean = pm[sim_rndn(6)];
    K.sched_policy = sim_rndn(4) == 0; K.pct_depth = 1 + (int)sim_rndn(3);
    /* capacities stay within what Linux can be configured to: >= one page for pipes, >= ~2 KiB for AF_UNIX buffers */
    static const int caps[] = { 65536, 65536, 16384, 4096 };
    static const int scaps[] = { 65536, 65536, 8192, 2304 };
    K.sock_cap = scaps[sim_rndn(4)]; K.pipe_cap = caps[sim_rndn(4)];
    K.short_read_pm = sim_rndn(2) ? (int)sim_rndn(400) : 0;
    K.short_write_pm = sim_rndn(4) == 0 ? (int)sim_rndn(300) : 0;
    K.eintr_pm = sim_rndn(4) == 0 ? (int)sim_rndn(100) : 0;
    K.zombie_delay_us = sim_rndn(2) ? (int)sim_rndn(200) : 0;
    K.stack_mode = sim_rndn(3) == 0 ? 1 + (int)sim_rndn(256) : 0;
    K.max_steps = quick ? 3000000 : 20000000; K.max_blocks = 600000000; K.max_sim_us = 3600ull * 1000000ull;
}
static void plan_gen(DPlan *P, uint64_t seed, const RunOpts *o) {
    memset(P, 0, sizeof *P);
    bool quick = strcmp(o->tier, "quick") == 0;
    snprintf(P->sub, sizeof P->sub, "%s", o->sub ? o->sub : "c17");
    bool c18 = strcmp(P->sub, "c18") == 0;
    sim_seed(seed);
    gen_knobs(quick);
    /* C18: descriptor pressure, as many abandoned connections produce it: accept() fails a few times before it succeeds */
    if (c18 && sim_rndn(4) == 0) K.accept_fail_pm = 50 + (int)sim_rndn(400);
    uint32_t m = sim_rndn(16);
    P->mode = m < 9 ? 0 : m < 15 ? 1 : 2;
    if (c18 && P->mode == 2) P->mode = 0;
    if (o->sub && strcmp(o->sub, "c17idle") == 0) { P->mode = 2; strcpy(P->sub, "c17"); }
    P->verbose = sim_rndn(3) == 0;
    P->cop_missing = !c18 && sim_rndn(8) == 0;
    P->race = sim_rndn(c18 ? 8 : 4) == 0;   /* error and abandonment paths of C18 plans are daemon code too */
    if (o->sub && strcmp(o->sub, "c17race") == 0) { P->race = 1; strcpy(P->sub, "c17"); }
    int maxc = quick ? 8 : (sim_rndn(8) == 0 ? 64 : 12);
    if (c18) maxc = 4;
    P->nclients = 1 + (int)sim_rndn((uint32_t)maxc);
    uint64_t window = sim_rndn(3) == 0 ? 0 : 1 + sim_rndn(5000);
    for (int i = 0; i < P->nclients; i++) {
        PClient *c = &P->c[i];
        snprintf(c->prog, sizeof c->prog, "%s", pick_prog(false));
        if (sim_rndn(4) == 0) snprintf(c->prog, sizeof c->prog, "gen%u", 100000 + sim_rndn(quick ? 150 : 20000) * 64 + (unsigned)i);   /* distinct per client index */
        int nt = is_gen(c->prog) ? 1 : corpus_ntoks(c->prog);
        c->tok = i % (nt ? nt : 1);
        /* (prog,tok) must be unique per run so every output byte is attributable */
        if (!is_gen(c->prog)) {
            /* every token of this program may already be taken (large plans): then the client gets a generated program, which is unique by its index */
            int used = 0; for (int j = 0; j < i; j++) if (strcmp(P->c[j].prog, c->prog) == 0) used++;
            if (used >= nt) { snprintf(c->prog, sizeof c->prog, "gen%u", 100000 + sim_rndn(quick ? 150 : 20000) * 64 + (unsigned)i); nt = 1; c->tok = 0; }
        }
        for (int j = 0; j < i && !is_gen(c->prog); j++) if (P->c[j].tok == c->tok && strcmp(P->c[j].prog, c->prog) == 0) { c->tok = (c->tok + 1) % nt; j = -1; }
        c->arrive = window ? sim_rndn((uint32_t)window) : 0;
        /* mode 2: the daemon idles out after 1 s; aim the arrivals at the instant it decides to shut down */
        if (P->mode == 2) c->arrive = 1000000ull - 2000 - 45 + sim_rndn(70);
        if (c18 && sim_rndn(3) == 0) c->kill_sys = 1 + (int)sim_rndn(60);
        else if (c18 && sim_rndn(2) == 0) c->copkill = 1 + (int)sim_rndn(14);   /* only matters for sessions that use externs */
    }
    if (P->cop_missing) for (int i = 0; i < P->nclients; i++) if (strcmp(P->c[i].prog, "extern_die") == 0) { snprintf(P->c[i].prog, sizeof P->c[i].prog, "gen%u", 100000 + sim_rndn(quick ? 150 : 20000) * 64 + (unsigned)i); P->c[i].tok = 0; }
    /* a co-process that cannot be (re)started makes the VM fall back to in-process FFI by design; a program whose extern
     * kills its executor would then kill the daemon itself.  That combination is the documented fallback, not a client
     * fault: co-process kills are not injected into plans that contain extern_die. */
    if (c18) {
        P->nbad = 1 + (int)sim_rndn(quick ? 6 : 12);
        /* one plan in ten is a long sequence of one or two kinds of misbehaviour in one daemon lifetime, followed by a well-formed
         * client: bookkeeping that only goes wrong after the n-th failed session of a kind (slots, counters, tables) */
        int flood = sim_rndn(10) == 0, fk1 = (int)sim_rndn(BK_HOSTILE), fk2 = (int)sim_rndn(BK_HOSTILE);
        if (flood) { P->nbad = 18 + (int)sim_rndn(quick ? 20 : 44); if (P->nclients > 0) P->c[P->nclients - 1].arrive = (window ? window : 1) + 5000 + sim_rndn(5000); }
        for (int i = 0; i < P->nbad; i++) {
            PBad *b = &P->b[i];
            b->kind = sim_rndn(3) == 0 ? BK_HOSTILE : (int)sim_rndn(BK_HOSTILE);
            if (flood) b->kind = sim_rndn(4) ? fk1 : fk2;
            b->arg = (int)sim_rndn(b->kind == BK_HOSTILE ? 1000000 : 1000);
            b->arrive = window ? sim_rndn((uint32_t)window + 1) : 0;
            snprintf(b->prog, sizeof b->prog, "%s", b->kind == BK_SLOWREADER || b->kind == BK_MIDOUTPUT ? "bigout" : pick_prog(true));
            if (b->kind == BK_HOSTILE) while (strcmp(b->prog, "bigout") == 0 || strcmp(b->prog, "recurse") == 0) snprintf(b->prog, sizeof b->prog, "%s", pick_prog(true));
            b->tok = 0;
        }
    }
    /* (also when extern_die is the module a hostile peer mutates: its session runs the same extern) */
    { bool die = false; for (int i = 0; i < P->nclients; i++) die |= strcmp(P->c[i].prog, "extern_die") == 0;
      for (int i = 0; i < P->nbad; i++) die |= strcmp(P->b[i].prog, "extern_die") == 0;
      if (die) for (int i = 0; i < P->nclients; i++) P->c[i].copkill = 0; }
}
static void plan_print(DPlan *P, uint64_t seed, Buf *b) {
    buf_printf(b, "family daemon\nsub %s\nseed %llu\n", P->sub, (unsigned long long)seed);
    knobs_print(b);
    buf_printf(b, "mode %d\nverbose %d\nrace %d\ncop_missing %d\n", P->mode, P->verbose, P->race, P->cop_missing);
    for (int i = 0; i < P->nclients; i++)
        buf_printf(b, "client prog=%s tok=%d arrive=%llu kill=%d copkill=%d\n", P->c[i].prog, P->c[i].tok, (unsigned long long)P->c[i].arrive, P->c[i].kill_sys, P->c[i].copkill);
    for (int i = 0; i < P->nbad; i++)
        buf_printf(b, "bad kind=%s arg=%d arrive=%llu prog=%s tok=%d\n", bk_name[P->b[i].kind], P->b[i].arg,
                   (unsigned long long)P->b[i].arrive, P->b[i].prog, P->b[i].tok);
}
static bool plan_parse(DPlan *P, uint64_t *seed, const char *path) {
    FILE *f = __real_fopen(path, "r"); if (!f) return false;
    memset(P, 0, sizeof *P); default_knobs(); strcpy(P->sub, "c17");
    char line[512];
    while (fgets(line, sizeof line, f)) {
        unsigned long long a; char prog[32], kind[32]; int t, k, arg;
        if (sscanf(line, "seed %llu", &a) == 1) *seed = a;
        else if (sscanf(line, "sub %7s", P->sub) == 1) {}
        else if (strncmp(line, "knob ", 5) == 0) knobs_parse_line(line);
        else if (sscanf(line, "mode %d", &t) == 1) P->mode = t;
        else if (sscanf(line, "verbose %d", &t) == 1) P->verbose = t;
        else if (sscanf(line, "race %d", &t) == 1) P->race = t;
        else if (sscanf(line, "cop_missing %d", &t) == 1) P->cop_missing = t;
        else if (sscanf(line, "client prog=%31s tok=%d arrive=%llu kill=%d copkill=%d", prog, &t, &a, &k, &arg) >= 4 && P->nclients < 64) {
            PClient *c = &P->c[P->nclients++]; snprintf(c->prog, sizeof c->prog, "%s", prog); c->tok = t; c->arrive = a; c->kill_sys = k; c->copkill = 0;
            { int ck = 0; if (sscanf(line, "client prog=%*s tok=%*d arrive=%*u kill=%*d copkill=%d", &ck) == 1) c->copkill = ck; }
        } else if (sscanf(line, "bad kind=%31s arg=%d arrive=%llu prog=%31s tok=%d", kind, &arg, &a, prog, &t) == 5 && P->nbad < 64) {
            PBad *b = &P->b[P->nbad++]; b->kind = -1;
            for (int i = 0; i < BK_NKINDS; i++) if (strcmp(bk_name[i], kind) == 0) b->kind = i;
            if (b->kind < 0) { P->nbad--; continue; }
            b->arg = arg; b->arrive = a; snprintf(b->prog, sizeof b->prog, "%s", prog); b->tok = t;
        }
    }
    fclose(f);
    return true;
}

/* ---------------- misbehaving peers ---------------- */
typedef struct BadState { PBad *b; int idx; bool skipped, sent_hostile, standalone_loaded; bool ref_crashed; bool connected; bool got_error; bool got_eof; bool got_exit; int replies; size_t reply_bytes; int err; bool done; } BadState;
static char sock_path[128];
static void put_hdr(uint8_t *h, uint8_t ver, uint8_t type, uint32_t len) {
    h[0] = ver; h[1] = type; h[2] = 0; h[3] = 0; h[4] = (uint8_t)len; h[5] = (uint8_t)(len >> 8); h[6] = (uint8_t)(len >> 16); h[7] = (uint8_t)(len >> 24);
}
static bool send_all(int fd, const void *p, size_t n) {
    const uint8_t *d = p;
    while (n) { ssize_t w = k_write(fd, d, n); if (w < 0) { if (errno == EINTR) continue; return false; } d += w; n -= (size_t)w; }
    return true;
}
/* read replies until EOF/error; classify */
static void drain_replies(int fd, BadState *st, size_t stop_after) {
    uint8_t buf[4096];
    Buf acc = {0};
    for (;;) {
        ssize_t r = k_read(fd, buf, sizeof buf);
        if (r < 0) { if (errno == EINTR) continue; st->err = errno; break; }
        if (r == 0) { st->got_eof = true; break; }
        buf_put(&acc, buf, (size_t)r); st->reply_bytes += (size_t)r;
        if (stop_after && st->reply_bytes >= stop_after) break;
    }
    size_t off = 0;
    while (off + VMD_HEADER_SIZE <= acc.len) {
        uint8_t type = acc.d[off + 1]; uint32_t len = acc.d[off + 4] | (uint32_t)acc.d[off + 5] << 8 | (uint32_t)acc.d[off + 6] << 16 | (uint32_t)acc.d[off + 7] << 24;
        st->replies++;
        if (type == VMD_MSG_ERROR) st->got_error = true;
        if (type == VMD_MSG_EXIT_CODE) st->got_exit = true;
        off += VMD_HEADER_SIZE + len;
    }
    buf_free(&acc);
}
static void *bad_peer(void *arg) {
    BadState *st = arg; PBad *b = st->b;
    int fd = k_socket();
    if (k_connect_path(fd, sock_path) != 0) { st->err = errno; st->done = true; k_close(fd); return NULL; }
    st->connected = true;
    Module *m = corpus_find(b->prog, b->tok);
    uint8_t h[VMD_HEADER_SIZE];
    switch (b->kind) {
    case BK_HDR_ONLY:
        put_hdr(h, VMD_PROTO_VERSION, VMD_MSG_LOAD_EXEC, (uint32_t)m->n); send_all(fd, h, sizeof h);
        if (b->arg & 1) sim_sleep_us(1 + (uint64_t)b->arg * 10);
        break;
    case BK_TRUNC: {
        size_t cut; switch (b->arg % 4) { case 0: cut = 0; break; case 1: cut = 1; break; case 2: cut = m->n / 2; break; default: cut = m->n - 1; }
        put_hdr(h, VMD_PROTO_VERSION, VMD_MSG_LOAD_EXEC, (uint32_t)m->n); send_all(fd, h, sizeof h); send_all(fd, m->d, cut);
        break; }
    case BK_GARBAGE: {
        uint8_t g[64]; size_t n = 1 + (size_t)(b->arg % 64);
        for (size_t i = 0; i < n; i++) g[i] = (uint8_t)(b->arg * 31 + (int)i * 17 + 3);
        if (g[0] == VMD_PROTO_VERSION) g[0] = 0xfe;
        send_all(fd, g, n); k_shutdown_wr(fd); drain_replies(fd, st, 0);
        break; }
    case BK_BADVER:
        put_hdr(h, (uint8_t)(VMD_PROTO_VERSION + 1 + b->arg % 200), VMD_MSG_PING, 0); send_all(fd, h, sizeof h); k_shutdown_wr(fd); drain_replies(fd, st, 0);
        break;
    case BK_UNKTYPE:
        put_hdr(h, VMD_PROTO_VERSION, (uint8_t)(0x20 + b->arg % 0xd0), 0); send_all(fd, h, sizeof h); drain_replies(fd, st, 0);
        break;
    case BK_OVERSIZE:
        put_hdr(h, VMD_PROTO_VERSION, VMD_MSG_LOAD_EXEC, (uint32_t)VMD_MAX_PAYLOAD + 1 + (uint32_t)b->arg); send_all(fd, h, sizeof h); k_shutdown_wr(fd); drain_replies(fd, st, 0);
        break;
    case BK_ZEROLEN:
        put_hdr(h, VMD_PROTO_VERSION, VMD_MSG_LOAD_EXEC, 0); send_all(fd, h, sizeof h); drain_replies(fd, st, 0);
        break;
    case BK_NONMODULE: {
        size_t n = 1 + (size_t)(b->arg % 300); uint8_t *g = malloc(n);
        for (size_t i = 0; i < n; i++) g[i] = (uint8_t)(b->arg * 7 + (int)i * 13);
        put_hdr(h, VMD_PROTO_VERSION, VMD_MSG_LOAD_EXEC, (uint32_t)n); send_all(fd, h, sizeof h); send_all(fd, g, n); free(g);
        drain_replies(fd, st, 0);
        break; }
    case BK_BADCRC: {
        uint8_t *c = malloc(m->n); memcpy(c, m->d, m->n);
        size_t pos = 32 + (size_t)b->arg % (m->n - 32); c[pos] ^= (uint8_t)(1u << (b->arg % 8));
        put_hdr(h, VMD_PROTO_VERSION, VMD_MSG_LOAD_EXEC, (uint32_t)m->n); send_all(fd, h, sizeof h); send_all(fd, c, m->n); free(c);
        drain_replies(fd, st, 0);
        break; }
    case BK_PINGJUNK: {
        uint8_t g[24]; for (int i = 0; i < 24; i++) g[i] = (uint8_t)(b->arg + i * 5);
        put_hdr(h, VMD_PROTO_VERSION, VMD_MSG_PING, 0); send_all(fd, h, sizeof h); send_all(fd, g, 1 + (size_t)(b->arg % 24));
        drain_replies(fd, st, 0);
        break; }
    case BK_STATUS:
        put_hdr(h, VMD_PROTO_VERSION, VMD_MSG_STATUS, 0); send_all(fd, h, sizeof h); drain_replies(fd, st, 0);
        break;
    case BK_SLOWREADER:
        put_hdr(h, VMD_PROTO_VERSION, VMD_MSG_LOAD_EXEC, (uint32_t)m->n); send_all(fd, h, sizeof h); send_all(fd, m->d, m->n);
        sim_sleep_us(1000 + (uint64_t)b->arg * 20);   /* never reads: the session's writes back up */
        break;
    case BK_MIDOUTPUT:
        put_hdr(h, VMD_PROTO_VERSION, VMD_MSG_LOAD_EXEC, (uint32_t)m->n); send_all(fd, h, sizeof h); send_all(fd, m->d, m->n);
        drain_replies(fd, st, 1 + (size_t)b->arg * 3);  /* hang up while the program is still printing */
        break;
    case BK_TRAILING: {   /* a complete, valid LOAD_EXEC followed by bytes nobody asked for, then a normal read of the reply */
        put_hdr(h, VMD_PROTO_VERSION, VMD_MSG_LOAD_EXEC, (uint32_t)m->n); send_all(fd, h, sizeof h); send_all(fd, m->d, m->n);
        uint8_t g[40]; for (int i = 0; i < 40; i++) g[i] = (uint8_t)(b->arg * 3 + i);
        send_all(fd, g, 1 + (size_t)(b->arg % 40));
        drain_replies(fd, st, 0);
        break; }
    case BK_SLOWLORIS: {  /* header and payload dribble in a few bytes at a time with pauses; halfway through the peer gives up */
        put_hdr(h, VMD_PROTO_VERSION, VMD_MSG_LOAD_EXEC, (uint32_t)m->n);
        for (size_t i = 0; i < sizeof h; i += 3) { send_all(fd, h + i, sizeof h - i < 3 ? sizeof h - i : 3); sim_sleep_us(200 + (uint64_t)(b->arg % 700)); }
        size_t upto = (b->arg & 1) ? m->n : m->n / 2;
        for (size_t i = 0; i < upto; i += 97) { send_all(fd, m->d + i, upto - i < 97 ? upto - i : 97); sim_sleep_us(100 + (uint64_t)(b->arg % 300)); }
        if (b->arg & 1) drain_replies(fd, st, 0);
        break; }
    case BK_HOSTILE: {
        Buf hb = {0}; char desc[128] = ""; char key[64];
        snprintf(key, sizeof key, "%s.%d.h%d", b->prog, b->tok, b->arg);
        Ref *ref = ref_lookup_key(key);
        /* scoping rule: a mutant on which the standalone VM spins forever is skipped (one spinning session is not a
         * violation and only burns the budget).  A mutant that CRASHES the standalone VM is still sent: inside the daemon
         * that crash takes every session down, which is exactly what C18 forbids. */
        if (!ref || (!ref->valid && !ref->crashed) || !hostile_make(m->d, m->n, (uint32_t)b->arg, &hb, desc, sizeof desc)) { st->skipped = true; break; }
        st->ref_crashed = ref->crashed;
        st->sent_hostile = true; st->standalone_loaded = ref->deser_ok && ref->instrs > 0;
        put_hdr(h, VMD_PROTO_VERSION, VMD_MSG_LOAD_EXEC, (uint32_t)hb.len); send_all(fd, h, sizeof h); send_all(fd, hb.d, hb.len);
        drain_replies(fd, st, 0);
        buf_free(&hb);
        break; }
    default: break;
    }
    k_close(fd);
    st->done = true;
    return NULL;
}

/* ---------------- prober: is the daemon still serving? ---------------- */
typedef struct Probe { bool connected, pong; int err; int phase; bool done; long active_reported; } Probe;
static void *prober(void *arg) {
    Probe *pr = arg;
    int fd = k_socket();
    if (k_connect_path(fd, sock_path) != 0) { pr->err = errno; pr->done = true; k_close(fd); return NULL; }
    pr->connected = true;
    uint8_t h[VMD_HEADER_SIZE]; put_hdr(h, VMD_PROTO_VERSION, VMD_MSG_PING, 0);
    if (send_all(fd, h, sizeof h)) {
        uint8_t r[VMD_HEADER_SIZE]; size_t got = 0;
        while (got < sizeof r) { ssize_t k = k_read(fd, r + got, sizeof r - got); if (k < 0 && errno == EINTR) continue; if (k <= 0) break; got += (size_t)k; }
        if (got == sizeof r && r[1] == VMD_MSG_PONG) pr->pong = true;
    }
    k_close(fd);
    /* second connection: STATUS.  The payload is free text; if it carries a number it is the count of active sessions,
     * which at this point (long after every other session ended) is this one */
    pr->active_reported = -1;
    sim_sleep_us(1000000);   /* let the PING session's thread finish its own bookkeeping first */
    fd = k_socket();
    if (k_connect_path(fd, sock_path) == 0) {
        put_hdr(h, VMD_PROTO_VERSION, VMD_MSG_STATUS, 0);
        if (send_all(fd, h, sizeof h)) {
            uint8_t r[VMD_HEADER_SIZE + 128]; size_t got = 0;
            for (;;) { ssize_t k = k_read(fd, r + got, sizeof r - got); if (k < 0 && errno == EINTR) continue; if (k <= 0) break; got += (size_t)k; if (got == sizeof r) break; }
            if (got > VMD_HEADER_SIZE && r[1] == VMD_MSG_STATUS_RSP) {
                for (size_t i = VMD_HEADER_SIZE; i < got; i++) if (r[i] >= '0' && r[i] <= '9' || (r[i] == '-' && i + 1 < got && r[i + 1] >= '0' && r[i + 1] <= '9')) { char tmp[32] = {0}; size_t l = got - i < 31 ? got - i : 31; memcpy(tmp, r + i, l); pr->active_reported = strtol(tmp, NULL, 10); break; }
            }
        }
    }
    k_close(fd);
    pr->done = true;
    return NULL;
}

/* ---------------- client kill injection ---------------- */
static struct { SimProc *p; int at; } kills[64]; static int nkills;
static int copkill_at[64]; static int ncopkill; static SimProc *cops_seen[64]; static int ncops_seen; static int copkills_fired;
static int pre_syscall_hook(SimProc *p, const char *name, int fd, size_t n) {
    (void)name; (void)fd; (void)n;
    if (ncopkill && p->img && strcmp(p->img->name, "nano_cop") == 0 && !p->in_vfork_child) {
        int idx = -1; for (int i = 0; i < ncops_seen; i++) if (cops_seen[i] == p) idx = i;
        if (idx < 0 && ncops_seen < 64) { idx = ncops_seen; cops_seen[ncops_seen++] = p; }
        if (idx >= 0 && idx < ncopkill && copkill_at[idx] && (int)p->syscalls >= copkill_at[idx]) { copkill_at[idx] = 0; copkills_fired++; return SIGKILL; }
    }
    for (int i = 0; i < nkills; i++) if (kills[i].p == p && kills[i].at && (int)p->syscalls >= kills[i].at) { kills[i].at = 0; return SIGKILL; }
    return 0;
}

/* ---------------- oracle helpers ---------------- */
static void strip_vmd_lines(Buf *in, Buf *out) {
    size_t i = 0;
    while (i < in->len) {
        size_t j = i; while (j < in->len && in->d[j] != '\n') j++;
        size_t l = j - i + (j < in->len ? 1 : 0);
        if (!(l >= 4 && memcmp(in->d + i, "[vmd", 4) == 0)) buf_put(out, in->d + i, l);
        i += l;
    }
}
/* A lazily launched daemon inherits the launching client's stderr, so its own "[vmd] ..." diagnostics legitimately end up
 * there and are not compared.  What they may not carry is another session's program text: returns the index of a line of
 * `other` (12 bytes or longer, not also a line of `own`) that occurs inside one of the "[vmd" lines of `in`, or -1. */
static bool has_line(Buf *b, const uint8_t *l, size_t n) {
    size_t i = 0;
    while (i < b->len) { size_t j = i; while (j < b->len && b->d[j] != '\n') j++; if (j - i == n && memcmp(b->d + i, l, n) == 0) return true; i = j + 1; }
    return false;
}
static bool vmd_lines_carry(Buf *in, Buf *other, Buf *own1, Buf *own2, char *what, size_t wsz) {
    size_t i = 0;
    while (i < in->len) {
        size_t j = i; while (j < in->len && in->d[j] != '\n') j++;
        if (j - i >= 4 && memcmp(in->d + i, "[vmd", 4) == 0) {
            size_t a = 0;
            while (a < other->len) {
                size_t b = a; while (b < other->len && other->d[b] != '\n') b++;
                size_t n = b - a;
                if (n >= 12 && n <= j - i && !has_line(own1, other->d + a, n) && !has_line(own2, other->d + a, n) && memmem(in->d + i, j - i, other->d + a, n)) {
                    snprintf(what, wsz, "%.*s", (int)(j - i > 200 ? 200 : j - i), (char *)in->d + i); return true; }
                a = b + 1;
            }
        }
        i = j + 1;
    }
    return false;
}
static bool buf_eq(Buf *a, Buf *b) { return a->len == b->len && (a->len == 0 || memcmp(a->d, b->d, a->len) == 0); }
static int exit_code_of(int status) { return WIFEXITED(status) ? WEXITSTATUS(status) : 128 + WTERMSIG(status); }

static void fam_prepare(uint64_t seed, const RunOpts *o) {
    DPlan P; uint64_t s = seed;
    if (o->planfile) { if (!plan_parse(&P, &s, o->planfile)) return; }
    else plan_gen(&P, seed, o);
    for (int i = 0; i < P.nclients; i++) {
        if (is_gen(P.c[i].prog)) { char key[40]; Buf src = {0}; gen_key(P.c[i].prog, key, sizeof key, &src); Prog *pg = prog_get((char *)src.d); buf_free(&src); if (pg && pg->ok) ref_get_blob(key, pg->d, pg->n); }
        else ref_get(P.c[i].prog, P.c[i].tok);
    }
    for (int i = 0; i < P.nbad; i++) if (P.b[i].kind == BK_HOSTILE) {
        Module *m = corpus_find(P.b[i].prog, P.b[i].tok); if (!m) continue;
        Buf hb = {0}; char desc[128]; char key[64];
        snprintf(key, sizeof key, "%s.%d.h%d", P.b[i].prog, P.b[i].tok, P.b[i].arg);
        if (hostile_make(m->d, m->n, (uint32_t)P.b[i].arg, &hb, desc, sizeof desc)) ref_get_blob(key, hb.d, hb.len);
        buf_free(&hb);
    }
}

extern bool race_on; extern uint64_t race_accesses, race_sync_ops, race_threads, race_cells_full;
void race_reset(void); int race_count(void); bool race_describe(int i, char *sig, size_t ssz, Buf *detail);
static void fam_run(uint64_t seed, const RunOpts *o, Result *r) {
    static DPlan P;
    if (o->planfile) { if (!plan_parse(&P, &seed, o->planfile)) { strcpy(r->verdict, "error"); return; } r->seed = seed; }
    else plan_gen(&P, seed, o);
    bool c18 = strcmp(P.sub, "c18") == 0;
    const char *prop = c18 ? "C18" : "C17";
    plan_print(&P, seed, &r->plan);
    plan_ready(r);

    SimKnobs saved = K;
    sim_reset(); K = saved; sim_seed(seed ^ 0x5DEECE66Dull);
    race_reset(); race_on = sim_race_daemon = P.race != 0;
    sim_exec_set_missing("nano_cop", false); if (P.cop_missing) sim_exec_set_missing("nano_cop", true);
    { extern int alloc_junk_on; const char *j = __real_getenv("NANOSIM_JUNK"); alloc_junk_on = j ? atoi(j) : 0; }   /* debugging aid */
    extern int audit_mode; extern uint64_t audit_stride; audit_mode = 1; audit_stride = 17;
    snprintf(sock_path, sizeof sock_path, "/tmp/nanolang_vm_%u.sock", 4242u);

    static Buf cout[64], cerr[64], dout, derr;
    SimProc *cl[64]; SimProc *daemon = NULL;
    if (P.mode != 1) {
        static char *av0[] = { "nano_vmd", "--foreground", "--no-timeout", NULL, NULL };
        static char *av2[] = { "nano_vmd", "--foreground", "--idle-timeout", "1", NULL, NULL };
        char **av = P.mode == 0 ? av0 : av2; int ac = P.mode == 0 ? 3 : 4;
        if (P.verbose) av[ac++] = "--verbose";
        daemon = sim_spawn("nano_vmd", "nano_vmd", ac, av, &dout, &derr, 0);
    }
    nkills = 0;
    for (int i = 0; i < P.nclients; i++) {
        const uint8_t *md; size_t mn;
        if (!client_module(P.c[i].prog, P.c[i].tok, &md, &mn, NULL)) { strcpy(r->verdict, "skip"); buf_printf(&r->detail, "no module for client program %s.%d", P.c[i].prog, P.c[i].tok); return; }
        char path[64]; snprintf(path, sizeof path, "/sim/m%d.nvm", i);
        simfs_put(path, md, mn);
        char **av = calloc(4, sizeof(char *)); av[0] = "nano_vm"; av[1] = "--daemon"; av[2] = strdup(path);
        char *role = malloc(16); snprintf(role, 16, "client%d", i);
        /* with a pre-started daemon, clients arrive after it had time to bind (it is not the property that a
         * client started before the daemon finds it) */
        uint64_t at = P.c[i].arrive + (P.mode != 1 ? 2000 : 0);
        cl[i] = sim_spawn(role, "nano_vm", 3, av, &cout[i], &cerr[i], at);
        if (P.c[i].kill_sys) { kills[nkills].p = cl[i]; kills[nkills].at = P.c[i].kill_sys; nkills++; }
    }
    ncopkill = 0; ncops_seen = 0; copkills_fired = 0;
    for (int i = 0; i < P.nclients; i++) if (P.c[i].copkill) { const uint8_t *md; size_t mn; bool ne = false; if (client_module(P.c[i].prog, P.c[i].tok, &md, &mn, &ne) && ne) copkill_at[ncopkill++] = P.c[i].copkill; }
    if (nkills || ncopkill) sim_hooks.pre_syscall = pre_syscall_hook;
    static BadState bs[64];
    for (int i = 0; i < P.nbad; i++) {
        memset(&bs[i], 0, sizeof bs[i]); bs[i].b = &P.b[i]; bs[i].idx = i;
        char *role = malloc(16); snprintf(role, 16, "bad%d", i);
        sim_spawn_fn(role, bad_peer, &bs[i], P.b[i].arrive + 2000);
    }
    static Probe pr; memset(&pr, 0, sizeof pr);
    sim_spawn_fn("prober", prober, &pr, 20000000);   /* t = 20 s: long after all faults have stopped */

    int rc = sim_run(); bool budget_out = false;

    /* ---- oracle ---- */
    extern uint64_t audit_fail, audits, audit_objs; extern char audit_msg[];
    if (audit_fail) { res_violation(r, "C14", "audit:%s", audit_msg); buf_printf(&r->detail, "C14 audit failed in a daemon run: %s\n", audit_msg); }
    extern uint64_t alloc_double_free;
    if (alloc_double_free) res_violation(r, "C14", "double-free");
    for (int i = 0; i < race_count(); i++) {
        char sg[600]; Buf d = {0};
        if (race_describe(i, sg, sizeof sg, &d)) { res_violation(r, "C17", "data-race:%s", sg); buf_printf(&r->detail, "%.*s", (int)d.len, (char *)d.d); }
        buf_free(&d);
    }
    if (P.race) { probe(r, "race_detector_runs", 1); probe(r, "race_accesses_checked", race_accesses); probe(r, "race_sync_edges", race_sync_ops); probe(r, "race_threads", race_threads); probe(r, "race_table_full", race_cells_full); }
    if (rc == 1 || rc == 2) {
        /* A hostile module may be a long or endless loop: that is a program, not a defect, and whether a given mutant ends within
         * the budget depends on how much preemption and auditing this run adds.  If, when the budget ran out, every well-formed
         * client had finished and the only work left was daemon threads executing VM code, the run is judged on everything else. */
        extern void *sim_last_runnable_task[]; extern SimProc *sim_last_runnable_proc[]; extern int sim_last_runnable_n; extern char sim_last_runnable[]; extern bool audit_task_in_vm(void *);
        bool only_hostile_vm = c18 && rc == 1 && sim_last_runnable_n > 0;
        for (int i = 0; i < sim_last_runnable_n && only_hostile_vm; i++) only_hostile_vm = sim_last_runnable_proc[i]->img && strcmp(sim_last_runnable_proc[i]->img->name, "nano_vmd") == 0 && audit_task_in_vm(sim_last_runnable_task[i]);
        for (int i = 0; i < P.nclients && only_hostile_vm; i++) if (cl[i]->alive) only_hostile_vm = false;
        if (rc == 2 && c18) { only_hostile_vm = true; for (int i = 0; i < P.nclients; i++) if (cl[i]->alive) only_hostile_vm = false; }
        if (only_hostile_vm) probe(r, "hostile_module_still_running_at_budget", 1);
        else if (rc == 1) { res_violation(r, prop, "budget:steps-exhausted"); buf_printf(&r->detail, "scheduling step budget exhausted (no quiescence); runnable at that point: %s\n", sim_last_runnable); }
        else { res_violation(r, prop, "budget:fuel-exhausted"); buf_printf(&r->detail, "basic-block budget exhausted\n"); }
        budget_out = only_hostile_vm;
    }
    /* find the daemon process when it was launched lazily */
    if (!daemon) for (int i = 0; i < sim_nprocs(); i++) if (strcmp(sim_proc_at(i)->name, "nano_vmd") == 0 && sim_proc_at(i)->img && strcmp(sim_proc_at(i)->img->name, "nano_vmd") == 0) { daemon = sim_proc_at(i); break; }
    int nd = 0; for (int i = 0; i < sim_nprocs(); i++) if (sim_proc_at(i)->img && strcmp(sim_proc_at(i)->img->name, "nano_vmd") == 0 && !sim_proc_at(i)->in_vfork_child) nd++;
    probe(r, "daemons_started", (uint64_t)nd);
    int served = 0, mismatches = 0;
    for (int i = 0; i < P.nclients; i++) {
        if (P.c[i].kill_sys && WIFSIGNALED(cl[i]->status) && WTERMSIG(cl[i]->status) == SIGKILL) continue;  /* we killed it */
        Ref *ref = client_ref(P.c[i].prog, P.c[i].tok);
        if (strcmp(P.c[i].prog, "extern_die") != 0 && (!ref || !ref->valid)) continue;   /* standalone VM crashed on it: not this property's business */
        if (cl[i]->alive) { res_violation(r, prop, "client-hung:%s", P.c[i].prog); buf_printf(&r->detail, "client%d (%s) never terminated\n", i, P.c[i].prog); continue; }
        Buf e1 = {0}, e2 = {0}; strip_vmd_lines(&cerr[i], &e1); strip_vmd_lines(&ref->err, &e2);
        for (int j = 0; j < P.nclients; j++) if (j != i) {
            Ref *rj = client_ref(P.c[j].prog, P.c[j].tok); char wl[256];
            if (rj && rj->valid && (vmd_lines_carry(&cerr[i], &rj->err, &ref->err, &ref->out, wl, sizeof wl) || vmd_lines_carry(&cerr[i], &rj->out, &ref->err, &ref->out, wl, sizeof wl))) {
                res_violation(r, "C17", "cross-session-text-on-stderr:%s", is_gen(P.c[j].prog) ? "generated-program" : P.c[j].prog);
                buf_printf(&r->detail, "client%d (%s) received on its stderr a daemon line that carries text of client%d's (%s) program: [%s]\n", i, P.c[i].prog, j, P.c[j].prog, wl);
                break;
            }
        }
        const char *what = NULL;
        if (!buf_eq(&cout[i], &ref->out)) what = "stdout";
        else if (exit_code_of(cl[i]->status) != exit_code_of(ref->status)) what = "status";
        else if (!buf_eq(&e1, &e2)) what = "stderr";
        if (strcmp(P.c[i].prog, "extern_die") == 0) { if (cl[i]->alive) res_violation(r, prop, "client-hung:extern_die"); continue; }   /* kills its own co-process: only the others are compared */
        bool session_may_fail = false; { const uint8_t *md; size_t mn; bool ne = false; if (ncopkill > 0 && client_module(P.c[i].prog, P.c[i].tok, &md, &mn, &ne)) session_may_fail = ne; }
        if (what && session_may_fail && exit_code_of(cl[i]->status) == 1 && e1.len > 0 && cout[i].len <= ref->out.len &&
            (cout[i].len == 0 || memcmp(cout[i].d, ref->out.d, cout[i].len) == 0)) { what = NULL; }   /* co-process was killed under it: contained failure (C16's outcome) */
        if (what) {
            mismatches++;
            if (P.mode == 2) res_violation(r, prop, "idle-shutdown-race:client-%s", WIFSIGNALED(cl[i]->status) ? "killed-by-SIGPIPE" : "gets-connection-error");
            else res_violation(r, prop, "client-mismatch:%s:%s", what, is_gen(P.c[i].prog) ? "generated-program" : P.c[i].prog);
            buf_printf(&r->detail, "client%d prog=%s tok=%d differs in %s: daemon-run status=%d out=%zuB err=[%.*s] | standalone status=%d out=%zuB err=[%.*s]\n",
                       i, P.c[i].prog, P.c[i].tok, what, exit_code_of(cl[i]->status), cout[i].len, (int)(e1.len > 300 ? 300 : e1.len), e1.d ? (char *)e1.d : "",
                       exit_code_of(ref->status), ref->out.len, (int)(e2.len > 300 ? 300 : e2.len), e2.d ? (char *)e2.d : "");
        } else served++;
        buf_free(&e1); buf_free(&e2);
    }
    if (budget_out) { /* no quiescence was reached: the end-of-run clauses (PING long after the last fault, no session thread left, no co-process left) do not apply */ }
    else if (P.mode == 0) {
        /* pre-started daemon without idle timeout: must be alive at the end, answer a PING sent long after the
         * last fault, and hold no session thread any more */
        if (!daemon->alive) {
            res_violation(r, prop, "daemon-exited:%d", exit_code_of(daemon->status));
            buf_printf(&r->detail, "daemon not alive at end of run (status %d) stderr=[%.*s]\n", daemon->status, (int)(derr.len > 300 ? 300 : derr.len), derr.d ? (char *)derr.d : "");
        } else {
            if (!pr.pong) { res_violation(r, prop, "no-pong-after-faults"); buf_printf(&r->detail, "prober: connected=%d pong=%d errno=%d\n", pr.connected, pr.pong, pr.err); }
            if (pr.pong && pr.active_reported != -1 && pr.active_reported != 1) {
                res_violation(r, prop, "session-count-drift:%ld", pr.active_reported);
                buf_printf(&r->detail, "STATUS long after all sessions ended reports %ld active sessions (the query itself is the only one): bad sessions corrupted the daemon's bookkeeping\n", pr.active_reported);
            }
            /* no thread of the daemon may still be waiting for a peer that no longer exists (helper threads idling on a condition
             * variable or semaphore are the implementation's business) */
            int lt = sim_proc_tasks_stuck_on_peer(daemon);
            if (lt > 0) { res_violation(r, prop, "session-leaked:%d", lt); buf_printf(&r->detail, "daemon has %d thread(s) still waiting on a socket, pipe or child at quiescence, of %d alive\n", lt, sim_proc_live_tasks(daemon)); }
        }
    } else if (P.mode == 1) {
        /* lazily launched daemon (default 300 s idle timeout): it must still answer at t = 20 s */
        /* whatever the sessions did, nothing may have killed the daemon with a signal */
        for (int i = 0; i < sim_nprocs(); i++) { SimProc *q = sim_proc_at(i);
            if (q->img && strcmp(q->img->name, "nano_vmd") == 0 && !q->in_vfork_child && !q->alive && WIFSIGNALED(q->status)) {
                res_violation(r, prop, "daemon-killed-by-signal:%d", WTERMSIG(q->status)); buf_printf(&r->detail, "the lazily launched daemon (pid %d) was killed by signal %d\n", q->pid, WTERMSIG(q->status)); break; } }
        if (daemon && !pr.pong && strcmp(r->verdict, "violation") != 0) { res_violation(r, prop, "no-pong-after-faults"); buf_printf(&r->detail, "prober: connected=%d pong=%d errno=%d (lazy daemon)\n", pr.connected, pr.pong, pr.err); }
    }
    for (int i = 0; i < P.nbad && !budget_out; i++) if (!bs[i].done) { res_violation(r, prop, "bad-peer-stuck:%s", bk_name[P.b[i].kind]); }
    /* no co-process may survive */
    for (int i = 0; i < sim_nprocs() && !budget_out; i++) {
        SimProc *p = sim_proc_at(i);
        if (p->img && strcmp(p->img->name, "nano_cop") == 0 && p->alive && !p->in_vfork_child) { res_violation(r, "C16", "orphan-cop-in-daemon"); }
    }
    probe(r, "idle_timeout_mode", P.mode == 2); probe(r, "daemon_idle_exits", P.mode == 2 && daemon && !daemon->alive);
    r->nontrivial = (served > 0 || P.mode == 2) && (S.threads_created > 1 || P.nbad > 0 || P.mode == 2);
    snprintf(r->class_key, sizeof r->class_key, "%016llx", (unsigned long long)sim_sched_hash());
    { int ng = 0; for (int i = 0; i < P.nclients; i++) ng += is_gen(P.c[i].prog); probe(r, "generated_program_clients", (uint64_t)ng); }
    probe(r, "clients", (uint64_t)P.nclients); probe(r, "served_equal", (uint64_t)served); probe(r, "bad_peers", (uint64_t)P.nbad);
    probe(r, "lazy_launch", P.mode == 1); probe(r, "audits", audits); probe(r, "audit_objs", audit_objs);
    probe(r, "cop_sessions", S.execs > (uint64_t)(P.mode == 1 ? nd : 0) ? S.execs - (uint64_t)(P.mode == 1 ? nd : 0) : 0);
    { int kc[BK_NKINDS] = {0}; for (int i = 0; i < P.nbad; i++) kc[P.b[i].kind]++;
      for (int k = 0; k < BK_NKINDS; k++) if (kc[k]) { char nm[48]; snprintf(nm, sizeof nm, "bad_%s", bk_name[k]); probe(r, nm, (uint64_t)kc[k]); } }
    for (int i = 0; i < P.nbad; i++) if (P.b[i].kind == BK_HOSTILE && bs[i].ref_crashed) probe(r, "hostile_sent_although_standalone_crashes", 1);
    { uint64_t hs = 0, hk = 0, hl = 0; for (int i = 0; i < P.nbad; i++) { hs += bs[i].sent_hostile; hk += bs[i].skipped; hl += bs[i].standalone_loaded; }
      probe(r, "hostile_sent", hs); probe(r, "hostile_skipped_standalone_spins", hk); probe(r, "hostile_that_standalone_executes", hl); }
    probe(r, "cop_killed_in_session", (uint64_t)copkills_fired);
    int nk = 0; for (int i = 0; i < P.nclients; i++) if (P.c[i].kill_sys && WIFSIGNALED(cl[i]->status)) nk++;
    probe(r, "clients_killed", (uint64_t)nk);
}

Family fam_daemon = { "daemon", fam_run, fam_prepare };
