/* Observation hooks called from the image shims, the allocator seam, and the
 * C14 ownership audit (DESIGN.md section 4, C14).
 *
 * Struct layouts come from /repo's headers at build time. */
#include "nanosim.h"
#include <stdlib.h>
#include <string.h>
#include <malloc.h>
#include "nanovm/vm.h"

uint64_t vm_instrs, vm_execs, deser_ok, deser_fail;

/* ======================================================================
 * allocator seam: registry of live blocks allocated by simulated code,
 * optional perturbation (junk fill, moving realloc, padding)
 * ====================================================================== */
typedef struct Blk { void *p; size_t n; } Blk;
typedef struct Tab { Blk *t; size_t cap, n; } Tab;
static Tab live_t, freed_t;
int alloc_junk_on;          /* 0 off; else junk byte = this & 0xff */
int alloc_move_realloc;     /* realloc always moves */
int alloc_pad_pm;           /* per-mille chance of a padding allocation before an allocation */
uint64_t alloc_count, alloc_double_free, alloc_pads;
static uint64_t alloc_rng = 88172645463325252ull;
void alloc_seed(uint64_t s) { alloc_rng = s * 2654435761u + 88172645463325252ull; }
static uint64_t arnd(void) { alloc_rng ^= alloc_rng << 13; alloc_rng ^= alloc_rng >> 7; alloc_rng ^= alloc_rng << 17; return alloc_rng; }

void *__real_calloc(size_t, size_t); void *__real_realloc(void *, size_t);
static size_t hslot(Tab *T, void *p) { return (size_t)((((uintptr_t)p) >> 4) * 0x9E3779B97F4A7C15ull) & (T->cap - 1); }
static void tab_add(Tab *T, void *p, size_t n);
static void tab_grow(Tab *T) {
    size_t oc = T->cap; Blk *old = T->t;
    T->cap = oc ? oc * 2 : 1 << 14;
    T->t = __real_calloc(T->cap, sizeof(Blk)); T->n = 0;
    for (size_t i = 0; i < oc; i++) if (old[i].p) tab_add(T, old[i].p, old[i].n);
    __real_free(old);
}
static void tab_add(Tab *T, void *p, size_t n) {
    if (!p) return;
    if ((T->n + 1) * 2 > T->cap) tab_grow(T);
    size_t s = hslot(T, p); while (T->t[s].p && T->t[s].p != p) s = (s + 1) & (T->cap - 1);
    if (!T->t[s].p) T->n++;
    T->t[s].p = p; T->t[s].n = n;
}
static Blk *tab_find(Tab *T, void *p) {
    if (!T->cap) return NULL;
    size_t s = hslot(T, p);
    while (T->t[s].p) { if (T->t[s].p == p) return &T->t[s]; s = (s + 1) & (T->cap - 1); }
    return NULL;
}
static void tab_del(Tab *T, Blk *b) {
    size_t s = (size_t)(b - T->t);
    T->t[s].p = NULL; T->n--;
    s = (s + 1) & (T->cap - 1);
    while (T->t[s].p) {
        Blk t = T->t[s]; T->t[s].p = NULL; T->n--;
        tab_add(T, t.p, t.n);
        s = (s + 1) & (T->cap - 1);
    }
}
static void live_add(void *p, size_t n) {
    if (!p) return;
    Blk *f = tab_find(&freed_t, p); if (f) tab_del(&freed_t, f);
    tab_add(&live_t, p, n);
}
static Blk *live_find(void *p) { return tab_find(&live_t, p); }
static void live_del(Blk *b) { void *p = b->p; tab_del(&live_t, b); tab_add(&freed_t, p, 0); }
bool alloc_is_live(void *p) { return live_find(p) != NULL; }
static bool was_freed(void *p) { return tab_find(&freed_t, p) != NULL; }
static void maybe_pad(void) {
    if (alloc_pad_pm && (int)(arnd() % 1000) < alloc_pad_pm) { alloc_pads++; (void)__real_malloc(16 + arnd() % 400); }
}
extern bool race_on; void race_forget(const void *p, size_t n);
extern size_t __sanitizer_get_allocated_size(const volatile void *p);
void *__wrap_malloc(size_t n) {
    if (!sim_cur_proc()) return __real_malloc(n);
    alloc_count++;
    maybe_pad();
    void *p = __real_malloc(n);
    if (p && alloc_junk_on) memset(p, alloc_junk_on & 0xff, n);
    if (race_on && p) race_forget(p, n);
    live_add(p, n);
    return p;
}
void *__wrap_calloc(size_t a, size_t b) {
    if (!sim_cur_proc()) return __real_calloc(a, b);
    alloc_count++;
    maybe_pad();
    void *p = __real_calloc(a, b);
    if (race_on && p) race_forget(p, a * b);
    live_add(p, a * b);
    return p;
}
void __wrap_free(void *p) {
    if (!p) return;
    if (!sim_cur_proc()) { __real_free(p); return; }
    Blk *b = live_find(p);
    if (!b) {
        if (was_freed(p)) { alloc_double_free++; return; }   /* reported by the family; do not let ASan abort first */
        if (race_on) race_forget(p, __sanitizer_get_allocated_size(p));
        __real_free(p);   /* allocated outside the seam (strdup, getline, ...) */
        return;
    }
    if (race_on) race_forget(p, b->n);
    live_del(b);
    __real_free(p);
}
void *__wrap_realloc(void *p, size_t n) {
    if (!sim_cur_proc()) return __real_realloc(p, n);
    alloc_count++;
    if (!p) return __wrap_malloc(n);
    Blk *b = live_find(p);
    if (!b) return __real_realloc(p, n);
    if (alloc_move_realloc) {
        size_t old = b->n;
        void *q = __real_malloc(n);
        if (!q) return NULL;
        if (alloc_junk_on) memset(q, alloc_junk_on & 0xff, n);
        memcpy(q, p, old < n ? old : n);
        if (race_on) { race_forget(p, old); race_forget(q, n); }
        live_del(b); live_add(q, n);
        __real_free(p);
        return q;
    }
    size_t old = b->n;
    tab_del(&live_t, b);
    void *q = __real_realloc(p, n);
    if (!q) { live_add(p, old); return NULL; }
    if (q != p) tab_add(&freed_t, p, 0);
    if (race_on) { if (q != p) race_forget(p, old); if (n > old) race_forget((char *)q + old, n - old); }
    if (alloc_junk_on && n > old) memset((char *)q + old, alloc_junk_on & 0xff, n - old);
    live_add(q, n);
    return q;
}

/* ======================================================================
 * VM registry: which VmState is executing on which simulated task
 * ====================================================================== */
#define MAXVM 256
static struct { void *task; VmState *vm; uint64_t instrs; } vmtab[MAXVM];
static int nvm;
static int vm_slot_for_task(void *task) {
    for (int i = 0; i < nvm; i++) if (vmtab[i].task == task && vmtab[i].vm) return i;
    return -1;
}
bool audit_task_in_vm(void *task) { return vm_slot_for_task(task) >= 0; }
int audit_mode;                 /* 0 off, 1 on */
uint64_t audit_stride = 1;      /* after the first 2000 instructions of a VM */
uint64_t audits, audit_objs, audit_fail;
char audit_msg[256];
uint64_t vm_final_objects = (uint64_t)-1;     /* heap.stats.num_objects seen at the last vm_destroy */
uint64_t vm_final_objects_max;

void sim_hook_vm_init(void *vm) { (void)vm; }
void sim_hook_vm_execute(void *vm, int phase, int result) {
    (void)result;
    void *t = sim_cur_task();
    if (phase == 0) {
        vm_execs++;
        for (int i = 0; i < nvm; i++) if (!vmtab[i].vm) { vmtab[i].task = t; vmtab[i].vm = vm; vmtab[i].instrs = 0; return; }
        if (nvm < MAXVM) { vmtab[nvm].task = t; vmtab[nvm].vm = vm; vmtab[nvm].instrs = 0; nvm++; }
    } else {
        int s = vm_slot_for_task(t);
        if (s >= 0) vmtab[s].vm = NULL;
    }
}
void sim_hook_vm_destroy(void *vmp) {
    VmState *vm = vmp;
    vm_final_objects = vm->heap.stats.num_objects;
    if (vm_final_objects > vm_final_objects_max) vm_final_objects_max = vm_final_objects;
}
void sim_hook_deserialize(const uint8_t *d, uint32_t n, void *m) { (void)d; (void)n; if (m) deser_ok++; else deser_fail++; }

/* ---------------- the audit ---------------- */
#define TBL 16384
static void *keys[TBL]; static uint32_t cnt[TBL]; static uint32_t kgen[TBL]; static uint32_t gen; static int used[TBL / 2 + 8]; static int nkeys;
static bool audit_bad; static VmState *audit_vm;
static void fail(const char *fmt, void *p, unsigned a, unsigned b) {
    if (audit_bad) return;
    audit_bad = true; audit_fail++;
    if (!audit_msg[0]) {
        char t[160]; snprintf(t, sizeof t, fmt, p, a, b);
        snprintf(audit_msg, sizeof audit_msg, "%s ip=%u fn=%u", t, audit_vm->ip, audit_vm->current_fn);
    }
}
static int slot(void *p) { uintptr_t h = ((uintptr_t)p >> 4) * 2654435761u; int i = (int)(h % TBL); while (kgen[i] == gen && keys[i] != p) i = (i + 1) % TBL; return i; }
static void visit(NanoValue v);
static void visit_obj(void *p, int tag) {
    if (nkeys > TBL / 2) return;
    if (!alloc_is_live(p)) { fail("reachable object %p (tag %u) is not allocated%.0u", p, (unsigned)tag, 0); return; }
    int i = slot(p);
    if (kgen[i] == gen) { cnt[i]++; return; }
    kgen[i] = gen; keys[i] = p; cnt[i] = 1; used[nkeys++] = i;
    VmHeapHeader *h = p;
    if (h->obj_type != tag) { /* tag mismatch between value and header: report but do not traverse */
        fail("object %p header type %u differs from value tag %u", p, h->obj_type, (unsigned)tag); return; }
    switch (tag) {
    case TAG_ARRAY: { VmArray *a = p; if (a->length && !alloc_is_live(a->elements)) { fail("array %p elements freed (len %u)%.0u", p, a->length, 0); break; }
        for (uint32_t k = 0; k < a->length; k++) visit(a->elements[k]); break; }
    case TAG_STRUCT: { VmStruct *s = p; for (uint32_t k = 0; k < s->field_count; k++) visit(s->fields[k]);
        if (s->field_names) for (uint32_t k = 0; k < s->field_count; k++) if (s->field_names[k]) visit_obj(s->field_names[k], TAG_STRING);
        break; }
    case TAG_UNION: { VmUnion *u = p; for (uint32_t k = 0; k < u->field_count; k++) visit(u->fields[k]); break; }
    case TAG_TUPLE: { VmTuple *t = p; for (uint32_t k = 0; k < t->count; k++) visit(t->elements[k]); break; }
    case TAG_FUNCTION: { VmClosure *c = p; for (uint32_t k = 0; k < c->capture_count; k++) visit(c->captures[k]); break; }
    case TAG_HASHMAP: { VmHashMap *m = p; for (uint32_t b = 0; b < m->bucket_count; b++) for (VmHMEntry *e = m->buckets[b]; e; e = e->next) { visit(e->key); visit(e->value); } break; }
    default: break;
    }
}
static void visit(NanoValue v) {
    if (v.tag == TAG_FUNCTION) {
        /* plain function values carry an index, closures a pointer */
        if ((uintptr_t)v.as.obj < 65536) return;
        visit_obj(v.as.obj, TAG_FUNCTION); return;
    }
    if (!val_is_heap_obj(v) || !v.as.obj) return;
    visit_obj(v.as.obj, v.tag);
}
static void audit_now(VmState *vm) {
    audits++; audit_bad = false; audit_vm = vm;
    if (++gen == 0) { memset(kgen, 0, sizeof kgen); gen = 1; }
    nkeys = 0;
    for (uint32_t i = 0; i < vm->stack_size; i++) visit(vm->stack[i]);
    for (uint32_t i = 0; i < vm->global_count; i++) visit(vm->globals[i]);
    for (uint32_t i = 0; i < vm->frame_count; i++) if (vm->frames[i].closure) visit_obj(vm->frames[i].closure, TAG_FUNCTION);
    audit_objs += (uint64_t)nkeys;
    if (audit_bad) return;
    for (int k = 0; k < nkeys; k++) {
        int i = used[k];
        VmHeapHeader *h = keys[i];
        if (h->ref_count < cnt[i]) fail("object %p ref_count %u < references %u", keys[i], h->ref_count, cnt[i]);
    }
}
void sim_hook_instr(void) {
    int s = vm_slot_for_task(sim_cur_task());
    if (s < 0) return;
    vm_instrs++;
    uint64_t n = ++vmtab[s].instrs;
    if (audit_mode && (n <= 2000 || n % audit_stride == 0)) audit_now(vmtab[s].vm);
}

/* ---------------- FFI observation (C15) ---------------- */
Buf ffi_log[2];       /* side 0: VM (vm_ffi_call_cop), side 1: callee (vm_ffi_call) */
uint64_t ffi_calls[2];
int ffi_log_on;
static void ser_val(Buf *b, NanoValue v, int depth) {
    buf_put(b, &v.tag, 1);
    switch (v.tag) {
    case TAG_INT: case TAG_OPAQUE: buf_put(b, &v.as.i64, 8); break;
    case TAG_FLOAT: buf_put(b, &v.as.f64, 8); break;
    case TAG_BOOL: { uint8_t x = v.as.boolean ? 1 : 0; buf_put(b, &x, 1); break; }
    case TAG_STRING: { uint32_t l = v.as.string ? v.as.string->length : 0; buf_put(b, &l, 4); if (l) buf_put(b, v.as.string->data, l); break; }
    case TAG_ARRAY: { VmArray *a = v.as.array; uint32_t l = a ? a->length : 0; buf_put(b, &l, 4);
        if (a) buf_put(b, &a->elem_type, 1);
        if (depth < 4) for (uint32_t i = 0; i < l; i++) ser_val(b, a->elements[i], depth + 1); break; }
    default: break;
    }
}
void sim_hook_ffi(int side, int phase, const void *module, uint32_t idx, void *args, int argc, void *result, bool ok) {
    (void)module;
    if (!ffi_log_on) return;
    Buf *b = &ffi_log[side];
    if (phase == 0) {
        ffi_calls[side]++;
        buf_put(b, "C", 1); buf_put(b, &idx, 4); buf_put(b, &argc, 4);
        NanoValue *a = args;
        for (int i = 0; i < argc && i < 16; i++) ser_val(b, a[i], 0);
    } else {
        uint8_t o = ok ? 1 : 0;
        buf_put(b, "R", 1); buf_put(b, &o, 1);
        if (ok && result) ser_val(b, *(NanoValue *)result, 0);
    }
}
