#!/usr/bin/env python3
"""determinism.py <family> <sub> <nseeds> : run every seed twice (16 workers, then 3 workers, other env)
and diff event-log hash, schedule hash, verdict and signature."""
import sys, os, json, subprocess
sys.path.insert(0, os.path.dirname(os.path.abspath(__file__)) + "/..")
VERIF = os.path.dirname(os.path.dirname(os.path.abspath(__file__)))
SIM = VERIF + "/build/nanosim"
def run(family, sub, tier, s0, n, jobs, env=None):
    per = (n + jobs - 1) // jobs; procs = []
    for w in range(jobs):
        a = s0 + w * per; b = min(s0 + n, a + per)
        if a >= b: break
        e = dict(os.environ); e.update(env or {})
        procs.append(subprocess.Popen([SIM, "run", family, "--seeds", f"{a}:{b}", "--tier", tier, "--sub", sub], stdout=subprocess.PIPE, stderr=subprocess.DEVNULL, text=True, env=e))
    out = {}
    for p in procs:
        for l in p.stdout:
            if l.startswith("{"):
                r = json.loads(l)
                # env family: nanoc runs shadow tests in its interpreter, whose GC probes tables keyed by pointer value; the
                # number of basic blocks executed (not the output, not the schedule: one task, no preemption) then varies
                # with the heap addresses the worker process happens to hand out, i.e. with the worker's earlier runs
                if family == "env" and r.get("stats"): r["stats"].pop("blocks", None)
                out[r["seed"]] = (r.get("verdict"), r.get("sig"), r.get("hash"), r.get("sched"), r.get("simtime_us"), json.dumps(r.get("stats"), sort_keys=True))
        p.wait()
    return out
family, sub, n = sys.argv[1], sys.argv[2], int(sys.argv[3])
tier = sys.argv[4] if len(sys.argv) > 4 else "quick"
a = run(family, sub, tier, 777000, n, 16)
b = run(family, sub, tier, 777000, n, 3, {"FOO_NOISE": "x" * 777, "TMPDIR": "/tmp/other"})
bad = [s for s in a if a[s] != b.get(s)]
print(f"{family}/{sub}: {len(a)} seeds run twice, {len(bad)} differ")
for s in bad[:5]: print(s, a[s][:5], b.get(s, ())[:5])
sys.exit(1 if bad or len(a) != n else 0)
