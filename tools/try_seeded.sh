#!/bin/bash
# try_seeded.sh <PROP> <patch.diff> [extra check args]: apply a seeded change to /repo, run the property's check, undo.
prop=$1; patch=$2; shift 2
cd /repo || exit 2
git diff --quiet || { echo "repo not clean"; exit 2; }
git apply "$patch" || { echo "patch does not apply"; exit 2; }
cd /verif
./check "$prop" "$@" > /tmp/try_out.txt 2>&1; rc=$?
git -C /repo checkout -- . 
echo "rc=$rc"; grep -E "^VIOLATION|^KNOWN|sig=|harness error|quick:|thorough:" /tmp/try_out.txt | head -12
find /verif/replays -name '*.plan' -delete
exit 0
