#!/bin/bash
# try_safe.sh <patch.diff> <PROP>... : apply a behaviour-preserving change, run the given checks, undo. Any VIOLATION or exit!=0 is a false alarm of ours.
patch=$1; shift
cd /repo || exit 2
git diff --quiet || { echo "repo not clean"; exit 2; }
git apply "$patch" || { echo "patch does not apply"; exit 2; }
cd /verif
for p in "$@"; do
  out=$(./check $p 2>&1); rc=$?
  echo "  $p rc=$rc $(echo "$out" | grep -E 'quick:' | cut -c1-70) $(echo "$out" | grep -E '^VIOLATION|harness error|sig=' | head -4 | tr '\n' ' ' | cut -c1-400)"
done
git -C /repo checkout -- .
find /verif/replays -name '*.plan' -delete
