#!/bin/bash
# mklocale.sh <dir>: build <dir>/xx_XX/LC_NUMERIC, a glibc locale category whose decimal point is ","
set -u
d=$1; mkdir -p "$d/xx_XX"; w=$(mktemp -d "$d/.mk.XXXXXX")
made=0
if command -v localedef >/dev/null 2>&1; then
  { echo '<code_set_name> ANSI_X3.4-1968'; echo '<mb_cur_min> 1'; echo '<mb_cur_max> 1'; echo 'CHARMAP'
    for i in $(seq 0 127); do printf '<U%04X> /x%02x c%d\n' "$i" "$i" "$i"; done; echo 'END CHARMAP'; } > "$w/ascii.cm"
  printf 'LC_NUMERIC\ndecimal_point ","\nthousands_sep "."\ngrouping 3;3\nEND LC_NUMERIC\n' > "$w/xx.src"
  localedef -c -f "$w/ascii.cm" -i "$w/xx.src" "$w/out" >/dev/null 2>&1
  [ -s "$w/out/LC_NUMERIC" ] && cp "$w/out/LC_NUMERIC" "$d/xx_XX/LC_NUMERIC" && made=1
fi
if [ $made -eq 0 ]; then
  echo 'FBEDIAYAAAAgAAAAIgAAACQAAAAoAAAALAAAADAAAAAsAC4AAwMAACwAAAAuAAAAQU5TSV9YMy40LTE5NjgA' | base64 -d > "$d/xx_XX/LC_NUMERIC"
fi
rm -rf "$w"
[ -s "$d/xx_XX/LC_NUMERIC" ]
