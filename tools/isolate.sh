#!/bin/bash
# isolate.sh <in.o> <out.o> <img> <entry>
# Turn a relocatable link of one program's objects into an isolated "image":
#  * every writable allocated PROGBITS/NOBITS section is renamed to
#    imgdata_<img> / imgbss_<img>, so the final link gives us
#    __start_/__stop_ symbols delimiting the image's private statics;
#  * every symbol except the entry point becomes local.
set -e
in=$1; out=$2; img=$3; entry=$4
args=()
while read -r name type flags; do
  case "$flags" in *T*) continue;; esac
  case "$flags" in *W*A*|*A*W*) ;; *) continue;; esac
  if [ "$type" = PROGBITS ]; then args+=(--rename-section "$name=imgdata_$img");
  elif [ "$type" = NOBITS ]; then args+=(--rename-section "$name=imgbss_$img"); fi
done < <(readelf -S -W "$in" | sed -n 's/^ *\[ *[0-9]*\] *\([^ ]*\) *\([A-Z_]*\) *[0-9a-f]* *[0-9a-f]* *[0-9a-f]* *[0-9a-f]* *\([A-Za-z]*\) .*/\1 \2 \3/p')
objcopy "${args[@]}" --keep-global-symbol="$entry" "$in" "$out"
rm -f "$in"
